"""Interval analysis over the clang CFG for a handful of codec functions (rule X7).

Values are closed intervals over the extended reals.  Each interval carries a *tight* flag:
tight = both end points are attained by some input, which the analysis only claims for values
obtained from ONE source variable through monotone operations with constants (so that exceeding a
bound is a real possibility, not an artefact of the non-relational domain).  Arithmetic between two
non-constant operands gives a *loose* interval: it can prove a bound but never refute one.
Floating point is modelled with Python floats (IEEE double): faithful for GEOGRAPHICLIB_PRECISION=2.
"""
import math

from .flow import ASSIGN_OPS

INF = float('inf')


class Iv:
    """closed interval; tlo / thi: that end point is attained by some input (see module doc);
    free: an unconstrained input (parameter) whose ends become attained when a constant guard fences it."""
    __slots__ = ('lo', 'hi', 'tlo', 'thi', 'free', 'isint', 'rel', 'srcs', 'nan', 'inf', 'ub', 'ubat')

    def __init__(self, lo, hi, tlo=False, thi=False, free=False, isint=False, rel=False, srcs=frozenset(),
                 nan=False, ub=False, inf=False):
        self.lo, self.hi, self.tlo, self.thi, self.free, self.isint = lo, hi, tlo, thi, free, isint
        self.rel = rel      # computed from two correlated non-constant operands: may be arbitrarily loose
        self.srcs = srcs    # input variables the value depends on
        self.nan = nan      # floating value that may be NaN (the interval describes the non-NaN values)
        self.inf = inf      # floating value that may be +-infinity (an unbounded interval alone only means "unknown")
        self.ub = ub        # integer obtained by converting a value that may be NaN / infinite: any value at all
        self.ubat = None

    def fl(self, *ops):
        """inherit the NaN / undefined-conversion flags of the operands."""
        for o in ops:
            if o.nan:
                self.nan = True
            if o.inf:
                self.inf = True
            if o.ub:
                self.ub = True
                self.ubat = self.ubat or o.ubat
        return self

    @property
    def nonfinite(self):
        return self.nan or self.inf

    def __repr__(self):
        return '%s%s, %s%s' % ('[' if self.tlo else '(', self.lo, self.hi, ']' if self.thi else ')')

    def key(self):
        return (self.lo, self.hi, self.tlo, self.thi, self.free, self.rel, self.nan, self.inf, self.ub)

    def __eq__(self, o):
        return isinstance(o, Iv) and self.key() == o.key()

    def __hash__(self):
        return hash(self.key())

    @property
    def const(self):
        return self.lo == self.hi and math.isfinite(self.lo)

    @property
    def finite(self):
        return math.isfinite(self.lo) and math.isfinite(self.hi)

    @property
    def tight(self):
        return self.tlo and self.thi


def TOP(isint=False, free=False):
    return Iv(-INF, INF, False, False, free, isint)


def const(v, isint=None):
    return Iv(v, v, True, True, False, isinstance(v, int) if isint is None else isint)


def hull(a, b):
    if a.lo < b.lo:
        lo, tlo = a.lo, a.tlo
    elif b.lo < a.lo:
        lo, tlo = b.lo, b.tlo
    else:
        lo, tlo = a.lo, a.tlo or b.tlo
    if a.hi > b.hi:
        hi, thi = a.hi, a.thi
    elif b.hi > a.hi:
        hi, thi = b.hi, b.thi
    else:
        hi, thi = a.hi, a.thi or b.thi
    return Iv(lo, hi, tlo, thi, a.free and b.free, a.isint and b.isint, a.rel or b.rel, a.srcs | b.srcs).fl(a, b)


def _mono(a, f, isint=None, dec=False):
    """monotone function applied to an interval (dec: decreasing)."""
    try:
        lo = f(a.lo) if math.isfinite(a.lo) else (a.lo if not dec else -a.lo)
        hi = f(a.hi) if math.isfinite(a.hi) else (a.hi if not dec else -a.hi)
    except (OverflowError, ValueError):
        return TOP().fl(a)
    ii = a.isint if isint is None else isint
    if dec:
        return Iv(hi, lo, a.thi, a.tlo, False, ii, a.rel, a.srcs).fl(a)
    return Iv(lo, hi, a.tlo, a.thi, False, ii, a.rel, a.srcs).fl(a)


def add(a, b):
    if b.const:
        return _mono(a, lambda x: x + b.lo, a.isint and b.isint).fl(b)
    if a.const:
        return _mono(b, lambda x: x + a.lo, a.isint and b.isint).fl(a)
    ind = not (a.srcs & b.srcs) and not a.rel and not b.rel and a.srcs and b.srcs
    return Iv(a.lo + b.lo, a.hi + b.hi, bool(ind and a.tlo and b.tlo), bool(ind and a.thi and b.thi), False,
              a.isint and b.isint, not ind, a.srcs | b.srcs).fl(a, b)


def neg(a):
    return Iv(-a.hi, -a.lo, a.thi, a.tlo, False, a.isint, a.rel, a.srcs).fl(a)


def sub(a, b):
    return add(a, neg(b))


def mul(a, b):
    isint = a.isint and b.isint
    if a.const and not b.const:
        a, b = b, a
    if b.const:
        c = b.lo
        if c > 0:
            return _mono(a, lambda x: x * c, isint)
        if c < 0:
            return _mono(a, lambda x: x * c, isint, dec=True)
        return const(0, isint)
    ind = bool(not (a.srcs & b.srcs) and not a.rel and not b.rel and a.srcs and b.srcs)
    cands = []
    for x, tx in ((a.lo, a.tlo), (a.hi, a.thi)):
        for y, ty in ((b.lo, b.tlo), (b.hi, b.thi)):
            if (x == 0 and not math.isfinite(y)) or (y == 0 and not math.isfinite(x)):
                cands.append((0, False))
            else:
                cands.append((x * y, ind and tx and ty))
    lo = min(cands, key=lambda c: c[0])
    hi = max(cands, key=lambda c: c[0])
    return Iv(lo[0], hi[0], lo[1], hi[1], False, isint, not ind, a.srcs | b.srcs)


def _tdiv(x, y):
    if not math.isfinite(x):
        return x if y > 0 else -x
    q = abs(int(x)) // abs(int(y))
    return q if (x >= 0) == (y > 0) else -q


def div(a, b, intdiv):
    if b.lo <= 0 <= b.hi:
        return TOP(intdiv)
    if b.const:
        c = b.lo
        f = (lambda x: _tdiv(x, c)) if intdiv else (lambda x: x / c)
        return _mono(a, f, intdiv, dec=(c < 0))
    ind = bool(not (a.srcs & b.srcs) and not a.rel and not b.rel and a.srcs and b.srcs)
    cands = []
    for x, tx in ((a.lo, a.tlo), (a.hi, a.thi)):
        for y, ty in ((b.lo, b.tlo), (b.hi, b.thi)):
            if not math.isfinite(y):
                cands.append((0, False))
            elif not math.isfinite(x):
                cands.append((x if y > 0 else -x, False))
            else:
                cands.append((_tdiv(x, y) if intdiv else x / y, ind and tx and ty))
    lo = min(cands, key=lambda c: c[0])
    hi = max(cands, key=lambda c: c[0])
    return Iv(lo[0], hi[0], lo[1], hi[1], False, intdiv, not ind, a.srcs | b.srcs)


def mod(a, b):
    if not b.const or b.lo <= 0:
        return TOP(True)
    m = int(b.lo)
    wide = a.finite and a.hi - a.lo >= m - 1
    if a.lo >= 0:
        if a.hi < m:
            return Iv(a.lo, a.hi, a.tlo, a.thi, False, True, a.rel, a.srcs)
        t = a.tlo and a.thi and wide
        return Iv(0, m - 1, t, t, False, True, a.rel, a.srcs)
    if a.hi <= 0:
        if a.lo > -m:
            return Iv(a.lo, a.hi, a.tlo, a.thi, False, True, a.rel, a.srcs)
        t = a.tlo and a.thi and wide
        return Iv(-(m - 1), 0, t, t, False, True, a.rel, a.srcs)
    return Iv(-(m - 1), m - 1, a.tlo and a.lo <= -(m - 1), a.thi and a.hi >= m - 1, False, True, a.rel, a.srcs)


def nextdown(x):
    return math.nextafter(x, -INF)


def nextup(x):
    return math.nextafter(x, INF)


# range summaries of library / libm functions: name -> (function on interval)
def _floor(a):
    return _mono(a, lambda x: float(math.floor(x)))


def _ceil(a):
    return _mono(a, lambda x: float(math.ceil(x)))


def _fabs(a):
    if a.lo >= 0:
        return Iv(a.lo, a.hi, a.tlo, a.thi, False, a.isint, a.rel, a.srcs)
    if a.hi <= 0:
        return neg(a)
    if -a.lo > a.hi:
        return Iv(0, -a.lo, False, a.tlo, False, a.isint, a.rel, a.srcs)
    return Iv(0, a.hi, False, a.thi, False, a.isint, a.rel, a.srcs)


RANGE_SUMMARY = {
    # documented, attained ranges of library functions (A-RANGE: read from Math.hpp documentation)
    # AngNormalize(x) = remainder(x, 360): NaN for NaN and for +-inf
    'GeographicLib::Math::AngNormalize': lambda args: Iv(-180.0, 180.0, True, True, False, False, False,
                                                         args[0].srcs if args else frozenset(),
                                                         nan=bool(args and args[0].nonfinite), inf=False),
    # LatFix(x) = |x| > 90 ? NaN : x
    'GeographicLib::Math::LatFix': lambda args: Iv(-90.0, 90.0, False, False,
                                                   nan=bool(not args or args[0].nan or args[0].lo < -90 or args[0].hi > 90)),
}


class Intervals:
    def __init__(self, ctx, fn, param_iv=None, depth=0):
        self.ctx = ctx
        self.fn = fn
        self.fl = ctx.flow(fn)
        self.depth = depth
        self.param_iv = param_iv or {}
        self.env_in = {}
        self.exit_env = None
        self._sum = {}
        self.ub_sites = {}
        self.solve()

    # -------------------------------------------------------------- evaluation
    def key(self, nid):
        fn = self.fn
        n = fn.nodes[fn.strip_casts(nid)]
        if n['k'] == 'DeclRefExpr' and n.get('rk') in ('param', 'local'):
            return n['d']
        return None

    @staticmethod
    def is_int_t(t):
        t = t.replace('const ', '').strip()
        return t in ('int', 'unsigned int', 'long', 'unsigned long', 'long long', 'unsigned long long', 'short',
                     'unsigned short', 'char', 'unsigned char', 'bool') or t.startswith('enum ')

    def ev(self, nid, env):
        fn = self.fn
        n = fn.nodes[nid]
        k = n['k']
        if 'cv' in n and k not in ('CallExpr',):
            return const(int(n['cv']))
        if 'fv' in n and k != 'DeclRefExpr':
            try:
                return const(float(n['fv']))
            except ValueError:
                pass
        if k in ('ParenExpr', 'ExprWithCleanups', 'MaterializeTemporaryExpr', 'CXXBindTemporaryExpr', 'ConstantExpr'):
            return self.ev(n['ch'][0], env) if n['ch'] else TOP()
        if k in ('ImplicitCastExpr', 'CXXFunctionalCastExpr', 'CStyleCastExpr', 'CXXStaticCastExpr'):
            v = self.ev(n['ch'][0], env) if n['ch'] else TOP()
            ck = n.get('ck')
            if ck == 'FloatingToIntegral':
                if (v.nan or v.inf) and not v.isint:
                    # converting NaN or an infinity to an integer type is undefined: any value may result
                    r = Iv(-INF, INF, True, True, False, True, False, v.srcs, False, True)
                    r.ubat = fn.loc(nid)
                    self.ub_sites.setdefault(nid, v)
                    return r
                r = _mono(v, lambda x: float(math.trunc(x)), True)
                if 'unsigned' in n.get('t', '') and r.lo < 0:
                    return Iv(0, INF, False, False, False, True, True).fl(v)
                return r
            if ck == 'IntegralToFloating':
                return Iv(v.lo, v.hi, v.tlo, v.thi, False, False, v.rel, v.srcs).fl(v)
            if ck == 'IntegralCast':
                if 'unsigned' in n.get('t', '') and v.lo < 0:
                    return Iv(0, INF, False, False, False, True, True).fl(v)
                return v
            return v
        if k == 'DeclRefExpr':
            if n.get('rk') in ('param', 'local', 'slocal'):
                return env.get(n['d'], TOP(self.is_int_t(n.get('t', ''))))
            return TOP()
        if k == 'IntegerLiteral':
            return const(int(n['v']))
        if k == 'FloatingLiteral':
            try:
                return const(float(n['v']))
            except ValueError:
                return TOP()
        if k == 'UnaryOperator':
            op = n['op']
            if op == '-':
                return neg(self.ev(n['ch'][0], env))
            if op == '+':
                return self.ev(n['ch'][0], env)
            if op in ('++', '--'):
                v = self.ev(n['ch'][0], env)
                nv = add(v, const(1 if op == '++' else -1))
                return v if n.get('postfix') else nv
            return TOP()
        if k in ('BinaryOperator', 'CompoundAssignOperator'):
            op = n['op']
            if op in ('=', ','):
                return self.ev(n['ch'][1], env)
            base = op[:-1] if op in ASSIGN_OPS else op
            if base in ('+', '-', '*', '/', '%', '<<', '>>', '&'):
                a = self.ev(n['ch'][0], env)
                b = self.ev(n['ch'][1], env)
                tn = n if op not in ASSIGN_OPS else fn.nodes[fn.strip(n['ch'][0])]
                return self.arith(base, a, b, self.is_int_t(tn.get('t', '')))
            if op in ('<', '>', '<=', '>=', '==', '!=', '&&', '||'):
                return Iv(0, 1, False, False, False, True, True)
            return TOP()
        if k == 'ConditionalOperator':
            # each arm is evaluated in the state its branch of the condition leaves (`x < c ? x : c` is a clamp that
            # also drops a NaN)
            et = self.refine(n['cond'], True, env)
            ee = self.refine(n['cond'], False, env)
            vals = []
            if et is not None:
                vals.append(self.ev(n['then'], et))
            if ee is not None:
                vals.append(self.ev(n['else'], ee))
            if not vals:
                return TOP()
            return vals[0] if len(vals) == 1 else hull(vals[0], vals[1])
        if k in ('CallExpr', 'CXXMemberCallExpr', 'CXXOperatorCallExpr'):
            return self.call(n, env)
        return TOP()

    def arith(self, op, a, b, isint):
        r = self._arith(op, a, b, isint)
        if r is a or r is b:
            r = Iv(r.lo, r.hi, r.tlo, r.thi, r.free, r.isint, r.rel, r.srcs, r.nan, r.ub)
        return r.fl(a, b)

    def _arith(self, op, a, b, isint):
        if op == '+':
            return add(a, b)
        if op == '-':
            return sub(a, b)
        if op == '*':
            return mul(a, b)
        if op == '/':
            return div(a, b, isint)
        if op == '%':
            return mod(a, b)
        if op == '<<' and b.const and a.lo >= 0:
            return mul(a, const(1 << int(b.lo)))
        if op == '>>' and b.const and a.lo >= 0:
            return div(a, const(1 << int(b.lo)), True)
        if op == '&' and b.const and b.lo >= 0:
            return Iv(0, b.lo, False, False, False, True, True)
        return TOP(isint)

    def call(self, n, env):
        ce = n.get('callee') or {}
        nm = ce.get('name')
        q = ce.get('q', '')
        args = n.get('args', [])
        off = 1 if (n.get('ckind') == 'operator' and ce.get('method')) else 0
        vals = [self.ev(a, env) for a in args[off:]]
        r = self._call(n, env, ce, nm, q, vals)
        if nm in ('floor', 'ceil', 'fabs', 'abs', 'min', 'fmin', 'max', 'fmax', 'pow', 'ldexp', 'fmod', 'remainder', 'sqrt',
                  'trunc', 'round') and not ce.get('inrepo'):
            if any(v is r for v in vals):
                r = Iv(r.lo, r.hi, r.tlo, r.thi, r.free, r.isint, r.rel, r.srcs, r.nan, r.ub)
            if nm in ('min', 'fmin', 'max', 'fmax') and len(vals) == 2:
                # NaN: fmin/fmax return the other operand, so the result is NaN only if both are;
                # std::min(a, b) = (b < a) ? b : a and std::max(a, b) = (a < b) ? b : a return a whenever
                # either operand is NaN.  The operand that is returned in that case widens the range.
                a, b = vals
                if nm in ('fmin', 'fmax'):
                    if a.nan:
                        r = hull(r, Iv(b.lo, b.hi, False, False, False, b.isint, b.rel, b.srcs))
                    if b.nan:
                        r = hull(r, Iv(a.lo, a.hi, False, False, False, a.isint, a.rel, a.srcs))
                    r.nan = a.nan and b.nan
                else:
                    if b.nan:
                        r = hull(r, Iv(a.lo, a.hi, False, False, False, a.isint, a.rel, a.srcs))
                    r.nan = a.nan
                r.inf = (a.inf or b.inf) and not (math.isfinite(r.lo) and math.isfinite(r.hi))
                if a.ub or b.ub:
                    r.ub = True
                    r.ubat = a.ubat or b.ubat
                return r
            r.fl(*vals)
            if nm in ('fmod', 'remainder') and vals and not vals[0].finite:
                r.nan = True
        return r

    def _call(self, n, env, ce, nm, q, vals):
        if q in RANGE_SUMMARY:
            return RANGE_SUMMARY[q](vals)
        if ce.get('inrepo'):
            return TOP()
        if nm == 'floor' and vals:
            return _floor(vals[0])
        if nm == 'ceil' and vals:
            return _ceil(vals[0])
        if nm in ('fabs', 'abs') and vals:
            return _fabs(vals[0])
        if nm in ('min', 'fmin', 'max', 'fmax') and len(vals) == 2:
            a, b = vals
            f = min if nm in ('min', 'fmin') else max
            lo, hi = f(a.lo, b.lo), f(a.hi, b.hi)
            tlo = (a.tlo if lo == a.lo else False) or (b.tlo if lo == b.lo else False)
            thi = (a.thi if hi == a.hi else False) or (b.thi if hi == b.hi else False)
            # clamping a one-variable range by a constant keeps attainability
            if not (a.const or b.const):
                tlo = thi = False
            return Iv(lo, hi, tlo, thi, False, a.isint and b.isint, a.rel or b.rel, a.srcs | b.srcs)
        if nm == 'pow' and len(vals) == 2 and vals[0].const and vals[0].lo > 1:
            b = vals[0].lo
            return _mono(vals[1], lambda x: float(b) ** x, False)
        if nm == 'ldexp' and len(vals) == 2 and vals[1].const:
            return mul(vals[0], const(2.0 ** vals[1].lo))
        if nm == 'fmod' and len(vals) == 2 and vals[1].const and vals[1].lo > 0:
            m = float(vals[1].lo)
            a = vals[0]
            lo = 0.0 if a.lo >= 0 else -nextdown(m)
            hi = 0.0 if a.hi <= 0 else nextdown(m)
            # a one-variable range wider than the modulus attains (a neighbourhood of) both ends
            return Iv(lo, hi, a.tlo and a.lo <= -m, a.thi and a.hi >= m, False, False, a.rel, a.srcs)
        if nm == 'remainder' and len(vals) == 2 and vals[1].const and vals[1].lo > 0:
            m = float(vals[1].lo)
            return Iv(-m / 2, m / 2, False, False, False, False, True)
        if nm == 'sqrt' and vals:
            return _mono(vals[0], lambda x: math.sqrt(x) if x >= 0 else float('nan'))
        return TOP()

    # -------------------------------------------------------------- transfer
    def transfer(self, e, env):
        fn = self.fn
        n = fn.nodes[e]
        k = n['k']
        if k == 'DeclStmt':
            for d in n['decls']:
                isint = self.is_int_t(d['t'])
                if d.get('init', -1) >= 0:
                    v = self.ev(d['init'], env)
                    env[d['d']] = Iv(v.lo, v.hi, v.tlo, v.thi, False, isint, v.rel, v.srcs).fl(v)
                elif not d.get('static_local'):
                    env[d['d']] = TOP(isint)
        elif k in ('BinaryOperator', 'CompoundAssignOperator') and n.get('op') in ASSIGN_OPS:
            key = self.key(n['ch'][0])
            v = self.ev(e, env)
            if key is not None:
                env[key] = Iv(v.lo, v.hi, v.tlo, v.thi, False, env.get(key, TOP()).isint or v.isint, v.rel, v.srcs).fl(v)
        elif k == 'UnaryOperator' and n.get('op') in ('++', '--'):
            key = self.key(n['ch'][0])
            if key is not None:
                env[key] = add(env.get(key, TOP(True)), const(1 if n['op'] == '++' else -1))
        elif k in ('CallExpr', 'CXXMemberCallExpr', 'CXXOperatorCallExpr'):
            self.call_effects(n, env)

    def call_effects(self, n, env):
        ce = n.get('callee') or {}
        args = n.get('args', [])
        off = 1 if (n.get('ckind') == 'operator' and ce.get('method')) else 0
        pk = ce.get('pk', [])
        callee = self.ctx.prog.fns.get(ce.get('usr'))
        summ = None
        if callee is not None and callee.cfg and self.depth < 2 and len(callee.nodes) < 900 and \
                any(callee.nodes[i]['k'] == 'CXXThrowExpr' for i in range(len(callee.nodes)) if callee.nodes[i]):
            vals = {}
            for ai, a in enumerate(args[off:]):
                if ai < len(callee.params):
                    v = self.ev(a, env)
                    vals[callee.params[ai]['d']] = v
            key = (callee.usr, tuple(sorted((k, v.key()) for k, v in vals.items())))
            if key not in self._sum:
                self._sum[key] = Intervals(self.ctx, callee, vals, self.depth + 1).exit_env
            summ = self._sum[key]
        for ai, a in enumerate(args[off:]):
            kind = pk[ai] if ai < len(pk) else 'v'
            k = self.key(a)
            if k is None:
                continue
            if summ and ai < len(callee.params):
                pv = summ.get(callee.params[ai]['d'])
                if pv is not None:
                    if kind in ('r', 'p'):
                        env[k] = Iv(pv.lo, pv.hi, False, False, False, pv.isint, True)
                    elif kind in ('v', 'cr') and not self._param_assigned(callee, ai):
                        # the callee returns normally only for arguments inside pv (its throwing guards)
                        cur = env.get(k, TOP())
                        lo, hi = max(cur.lo, pv.lo), min(cur.hi, pv.hi)
                        if lo <= hi:
                            env[k] = Iv(lo, hi, pv.tlo if lo == pv.lo else cur.tlo, pv.thi if hi == pv.hi else cur.thi,
                                        False, cur.isint, cur.rel, cur.srcs, nan=cur.nan and pv.nan, ub=cur.ub,
                                        inf=cur.inf and pv.inf and not (math.isfinite(lo) and math.isfinite(hi)))
                    continue
            if kind in ('r', 'p'):
                env[k] = TOP(env.get(k, TOP()).isint)

    def _param_assigned(self, callee, idx):
        d = callee.params[idx]['d']
        for i, n in callee.all_nodes():
            if (n['k'] in ('BinaryOperator', 'CompoundAssignOperator') and n.get('op') in ASSIGN_OPS) or \
                    (n['k'] == 'UnaryOperator' and n.get('op') in ('++', '--')):
                ln = callee.nodes[callee.strip(n['ch'][0])]
                if ln['k'] == 'DeclRefExpr' and ln.get('d') == d:
                    return True
        return False

    # -------------------------------------------------------------- branch refinement
    def refine(self, cond, truth, env):
        """env refined by (cond == truth), or None if infeasible."""
        fn = self.fn
        n = fn.nodes[cond]
        k = n['k']
        if k == 'ImplicitCastExpr' and n.get('ck') == 'IntegralToBoolean' and n['ch']:
            inner = fn.nodes[fn.strip(n['ch'][0])]
            if inner['k'] == 'UnaryOperator' and inner['op'] == '--' and inner.get('postfix'):
                key = self.key(inner['ch'][0])       # for (int c = prec; c--;): the old value is tested
                if key is not None:
                    env = dict(env)
                    cur = env.get(key, TOP(True))      # already decremented by the element itself
                    if truth:                           # old != 0  <=>  new != -1
                        lo, hi = cur.lo, cur.hi
                        if lo == -1:
                            lo = 0
                        if hi == -1:
                            hi = -2
                        if lo > hi:
                            return None
                        env[key] = Iv(lo, hi, False, False, False, True, cur.rel, cur.srcs)
                    else:                               # old == 0  <=>  new == -1
                        if cur.lo > -1 or cur.hi < -1:
                            return None
                        env[key] = Iv(-1, -1, False, False, False, True)
                    return env
            key = self.key(n['ch'][0])
            if key is not None and not truth:
                cur = env.get(key, TOP(True))
                if cur.lo > 0 or cur.hi < 0:
                    return None
                env = dict(env)
                env[key] = Iv(0, 0, cur.tlo or cur.free, cur.thi or cur.free, False, True)
            return env
        if k in ('ParenExpr', 'ImplicitCastExpr', 'ExprWithCleanups') and n['ch']:
            return self.refine(n['ch'][0], truth, env)
        if k == 'UnaryOperator' and n['op'] == '!':
            return self.refine(n['ch'][0], not truth, env)
        if k == 'BinaryOperator':
            op = n['op']
            if op in ('&&', '||'):
                conj = (op == '&&') == truth
                if conj:
                    e1 = self.refine(n['ch'][0], truth, env)
                    return None if e1 is None else self.refine(n['ch'][1], truth, e1)
                a = self.refine(n['ch'][0], truth, env)
                b0 = self.refine(n['ch'][0], not truth, env)
                b = None if b0 is None else self.refine(n['ch'][1], truth, b0)
                return self.join_env(a, b)
            if op in ('<', '>', '<=', '>=', '==', '!='):
                # an ordered comparison (or ==) that holds excludes NaN operands; one that fails does not
                clears = (truth and op != '!=') or (not truth and op == '!=')
                if not truth:
                    op = {'<': '>=', '>': '<=', '<=': '>', '>=': '<', '==': '!=', '!=': '=='}[op]
                return self.refine_cmp(n['ch'][0], op, n['ch'][1], env, clears)
        if k == 'DeclRefExpr' and n.get('rk') == 'local' and n.get('d') in self.bool_defs():
            # a named guard (`const bool valid = !(isnan(lat) || isnan(lon)); if (!valid) return ...`): a branch on the
            # name is a branch on its initialiser while the variables of the initialiser still hold the same values
            init, dpos, wr = self.bool_defs()[n['d']]
            upos = (n.get('l', 0), n.get('c', 0))
            inloop = any(fn.nodes[a]['k'] in ('WhileStmt', 'ForStmt', 'DoStmt') for a in fn.ancestors(cond))
            if not wr or (not inloop and not any(dpos < w < upos for w in wr)):
                return self.refine(init, truth, env)
            return env
        if k == 'CallExpr':
            ce = n.get('callee') or {}
            nm = ce.get('name')
            if nm in ('isnan', 'isfinite', 'isinf') and not ce.get('inrepo') and n.get('args'):
                key = self.key(n['args'][0])
                if key is not None:
                    cur = env.get(key, TOP())
                    env = dict(env)
                    if nm == 'isnan':
                        env[key] = Iv(cur.lo, cur.hi, cur.tlo, cur.thi, cur.free, cur.isint, cur.rel, cur.srcs,
                                      nan=bool(truth), ub=cur.ub, inf=cur.inf and not truth)
                    elif nm == 'isfinite' and truth:
                        big = 1.7976931348623157e308
                        env[key] = Iv(max(cur.lo, -big), min(cur.hi, big), cur.tlo, cur.thi, cur.free, cur.isint,
                                      cur.rel, cur.srcs, nan=False, ub=cur.ub, inf=False)
                return env
        return env

    def join_env(self, a, b):
        if a is None:
            return b
        if b is None:
            return a
        return {k: hull(a[k], b[k]) for k in set(a) & set(b)}

    INT_BOUNDS = {'int': (-2.0 ** 31, 2.0 ** 31 - 1), 'unsigned int': (0.0, 2.0 ** 32 - 1), 'short': (-32768.0, 32767.0),
                  'long': (-2.0 ** 63, 2.0 ** 63), 'long long': (-2.0 ** 63, 2.0 ** 63),
                  'unsigned long': (0.0, 2.0 ** 64), 'unsigned long long': (0.0, 2.0 ** 64), 'bool': (0.0, 1.0)}

    def int_type_bounds(self, t):
        return self.INT_BOUNDS.get(t.replace('const ', '').strip())

    def bool_defs(self):
        """bool local -> (initialiser, position of the declaration, positions of later writes to the initialiser's
        variables), for locals declared once with an initialiser outside any loop and never assigned again."""
        if getattr(self, '_bool_defs', None) is not None:
            return self._bool_defs
        fn = self.fn
        out = {}
        writes = {}          # variable -> [(line, col)] of assignments, ++/--, and by-reference passes
        for i, n in fn.all_nodes():
            tgt = None
            if n['k'] in ('BinaryOperator', 'CompoundAssignOperator') and n.get('op') in ASSIGN_OPS:
                tgt = self.key(n['ch'][0])
            elif n['k'] == 'UnaryOperator' and n.get('op') in ('++', '--', '&'):
                tgt = self.key(n['ch'][0])
            if tgt:
                writes.setdefault(tgt, []).append((n.get('l', 0), n.get('c', 0)))
            if n['k'] in ('CallExpr', 'CXXMemberCallExpr', 'CXXOperatorCallExpr', 'CXXConstructExpr'):
                pk = (n.get('callee') or {}).get('pk', [])
                for ai, a in enumerate(n.get('args', [])):
                    if (pk[ai] if ai < len(pk) else 'r') in ('r', 'p', 'rr'):
                        t2 = self.key(a)
                        if t2:
                            writes.setdefault(t2, []).append((n.get('l', 0), n.get('c', 0)))
        for i, n in fn.all_nodes():
            if n['k'] != 'DeclStmt' or any(fn.nodes[a]['k'] in ('WhileStmt', 'ForStmt', 'DoStmt') for a in fn.ancestors(i)):
                continue
            for d in n['decls']:
                if d.get('t', '').replace('const ', '').strip() != 'bool' or d.get('init', -1) is None or d.get('init', -1) < 0:
                    continue
                if d['d'] in writes:
                    continue
                dpos = (n.get('l', 0), n.get('c', 0))
                ok = True
                later = []       # writes to the initialiser's variables after the declaration (source order)
                for j in fn.walk(d['init']):
                    m = fn.nodes[j]
                    if m['k'] == 'DeclRefExpr' and m.get('rk') in ('local', 'param'):
                        later += [w for w in writes.get(m['d'], ()) if w > dpos]
                    elif m['k'] in ('CallExpr', 'CXXMemberCallExpr') and (m.get('callee') or {}).get('inrepo'):
                        ok = False
                if ok:
                    out[d['d']] = (d['init'], dpos, later)
        self._bool_defs = out
        return out

    def refine_cmp(self, l, op, r, env, clears_nan=False):
        fn = self.fn
        env = dict(env)
        flip = {'<': '>', '>': '<', '<=': '>=', '>=': '<=', '==': '==', '!=': '!='}
        for lhs, o, rhs in ((l, op, r), (r, flip[op], l)):
            ln = fn.nodes[fn.strip_casts(lhs)]
            key = None
            absval = False
            if ln['k'] == 'BinaryOperator' and ln.get('op') == '%' and o == '==':
                # (v % k) == 0 with v >= 0: v is a multiple of k
                vk = self.key(ln['ch'][0])
                kv = self.ev(ln['ch'][1], env)
                rv0 = self.ev(rhs, env)
                if vk is not None and kv.const and kv.lo > 0 and rv0.const and rv0.lo == 0:
                    cur = env.get(vk, TOP(True))
                    k_ = int(kv.lo)
                    if cur.lo >= 0:
                        lo = -(-int(cur.lo) // k_) * k_ if math.isfinite(cur.lo) else cur.lo
                        hi = (int(cur.hi) // k_) * k_ if math.isfinite(cur.hi) else cur.hi
                        if lo > hi:
                            return None
                        env[vk] = Iv(lo, hi, False, False, False, True, cur.rel)
                continue
            if ln['k'] == 'DeclRefExpr' and ln.get('rk') in ('param', 'local'):
                key = ln['d']
            elif ln.get('callee') and ln['callee'].get('name') in ('fabs', 'abs') and ln.get('args'):
                an = fn.nodes[fn.strip_casts(ln['args'][0])]
                if an['k'] == 'DeclRefExpr':
                    key = an['d']
                    absval = True
            if key is None:
                continue
            rv = self.ev(rhs, env)
            if not (math.isfinite(rv.lo) and math.isfinite(rv.hi)) and not rv.nonfinite:
                # an expression of integer type is bounded by its type even when nothing else is known about it
                # (`tn < _nNmodels - 1` bounds tn: it is then neither +inf nor NaN)
                tb = self.int_type_bounds(fn.nodes[fn.strip_casts(rhs)].get('t', ''))
                if tb is not None:
                    rv = Iv(max(rv.lo, tb[0]), min(rv.hi, tb[1]), False, False, False, True, rv.rel, rv.srcs)
            cur = env.get(key, TOP())
            isint = cur.isint
            lo, hi, tlo, thi = cur.lo, cur.hi, cur.tlo, cur.thi
            att = cur.free and rv.const         # fencing an unconstrained input by a constant: attained
            if absval:
                if o in ('<=', '<') and math.isfinite(rv.hi):
                    b = rv.hi if o == '<=' else (rv.hi - 1 if isint else nextdown(rv.hi))
                    if -b > lo:
                        lo, tlo = -b, att
                    if b < hi:
                        hi, thi = b, att
                else:
                    continue
            elif o == '<' and math.isfinite(rv.hi):
                b = rv.hi - 1 if isint else nextdown(rv.hi)
                if b < hi:
                    hi, thi = b, att
            elif o == '<=' and math.isfinite(rv.hi):
                if rv.hi < hi:
                    hi, thi = rv.hi, att
            elif o == '>' and math.isfinite(rv.lo):
                b = rv.lo + 1 if isint else nextup(rv.lo)
                if b > lo:
                    lo, tlo = b, att
            elif o == '>=' and math.isfinite(rv.lo):
                if rv.lo > lo:
                    lo, tlo = rv.lo, att
            elif o == '==':
                if rv.lo > lo:
                    lo, tlo = rv.lo, att and rv.const
                if rv.hi < hi:
                    hi, thi = rv.hi, att and rv.const
                if rv.const and (cur.tight or cur.free) and cur.lo <= rv.lo <= cur.hi:
                    tlo = thi = True
            elif o == '!=' and rv.const:
                if hi == rv.lo:
                    hi = hi - 1 if isint else nextdown(hi)     # still attained if it was
                if lo == rv.lo:
                    lo = lo + 1 if isint else nextup(lo)
            if lo > hi:
                return None
            env[key] = Iv(lo, hi, tlo, thi, cur.free, isint, cur.rel, cur.srcs,
                          nan=(False if clears_nan else cur.nan), ub=cur.ub,
                          inf=cur.inf and not (math.isfinite(lo) and math.isfinite(hi)))
        return env

    # -------------------------------------------------------------- fixpoint
    def solve(self):
        fn = self.fn
        fl = self.fl
        entry = fn.cfg['entry']
        env0 = {}
        for p in fn.params:
            if p['pk'] in ('v', 'cr'):
                iv = self.param_iv.get(p['d'])
                if iv is None:
                    iv = TOP(self.is_int_t(p['t']), free=True)
                    iv.srcs = frozenset([p['d']])
                    iv.nan = iv.inf = not self.is_int_t(p['t'])      # a floating argument may be NaN or +-inf
                else:
                    iv = Iv(iv.lo, iv.hi, iv.tlo, iv.thi, iv.free or (not iv.finite and not iv.rel), iv.isint, iv.rel,
                            iv.srcs or frozenset([p['d']]))
                env0[p['d']] = iv
        self.env_in = {entry: env0}
        self.thresholds = {0, -1, 1}
        for i, n in fn.all_nodes():
            if 'cv' in n:
                try:
                    v = int(n['cv'])
                    if abs(v) < 10 ** 7:
                        self.thresholds.update((v, v - 1, v + 1))
                except ValueError:
                    pass
        idx = {b: i for i, b in enumerate(fl.rpo)}
        heads = {b for b in fl.rpo if any(idx.get(p, -1) >= idx[b] for p in fl.preds.get(b, ()))}
        out_edge = {}

        def flow_block(b):
            env = dict(self.env_in[b])
            for kind, e in fl._elts[b]:
                if kind == 'stmt':
                    self.transfer(e, env)
            blk = fn.blocks[b]
            succ = blk['succ']
            cond = blk.get('cond')
            for s in self._succs_all(b):
                out_edge.pop((b, s), None)
            if cond is not None and len(succ) == 2 and blk.get('termk') not in ('SwitchStmt', 'CXXTryStmt'):
                for s, truth in ((succ[0], True), (succ[1], False)):
                    if s is None:
                        continue
                    e2 = self.refine(cond, truth, env)
                    if e2 is not None:
                        out_edge[(b, s['b'])] = e2 if (b, s['b']) not in out_edge else self.join_env(out_edge[(b, s['b'])], e2)
            else:
                for s in succ:
                    if s is not None:
                        out_edge[(b, s['b'])] = env

        def in_of(b):
            acc = None
            for p in fl.preds.get(b, ()):
                e2 = out_edge.get((p, b))
                if e2 is None:
                    continue
                acc = dict(e2) if acc is None else {k: hull(acc[k], e2[k]) for k in set(acc) & set(e2)}
            return acc

        visits = {}
        for phase in ('widen', 'narrow', 'narrow'):
            changed = True
            rounds = 0
            while changed and rounds < (60 if phase == 'widen' else 1):
                changed = False
                rounds += 1
                for b in fl.rpo:
                    if b != entry:
                        new = in_of(b)
                        if new is None:
                            continue
                        old = self.env_in.get(b)
                        if phase == 'widen' and b in heads and old is not None:
                            w = {}
                            for k in set(old) & set(new):
                                h = hull(old[k], new[k])
                                if h != old[k]:
                                    visits[(b, k)] = visits.get((b, k), 0) + 1
                                    if visits[(b, k)] > 3:
                                        lo = h.lo if h.lo == old[k].lo else max([t for t in self.thresholds if t <= h.lo], default=-INF)
                                        hi = h.hi if h.hi == old[k].hi else min([t for t in self.thresholds if t >= h.hi], default=INF)
                                        if visits[(b, k)] > 10:
                                            lo = h.lo if h.lo == old[k].lo else -INF
                                            hi = h.hi if h.hi == old[k].hi else INF
                                        h = Iv(lo, hi, h.tlo and lo == old[k].lo, h.thi and hi == old[k].hi, False, h.isint, True, h.srcs)
                                w[k] = h
                            new = w
                        if old != new:
                            self.env_in[b] = new
                            changed = True
                    if b in self.env_in:
                        flow_block(b)
        # exit env: join over non-throwing predecessors of the exit block
        ex = fn.cfg['exit']
        acc = None
        for b in fl.rpo:
            if b == ex or b not in self.env_in or ex not in fl._succs(b):
                continue
            blk = fn.blocks[b]
            if blk.get('noreturn') or any(kind == 'stmt' and fn.nodes[e]['k'] == 'CXXThrowExpr' for kind, e in fl._elts[b]):
                continue
            env = dict(self.env_in[b])
            for kind, e in fl._elts[b]:
                if kind == 'stmt':
                    self.transfer(e, env)
            acc = env if acc is None else self.join_env(acc, env)
        self.exit_env = acc or {}

    def _succs_all(self, b):
        return [x['b'] for x in self.fn.blocks[b]['succ'] if x is not None]

    def env_at(self, nid):
        loc = self.fl.locate(nid)
        if loc is None:
            return {}
        b, idx = loc
        if b not in self.env_in:
            return None
        env = dict(self.env_in[b])
        for kind, e in self.fl._elts[b][:idx]:
            if kind == 'stmt':
                self.transfer(e, env)
        return env
