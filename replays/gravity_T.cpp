#include <GeographicLib/GravityModel.hpp>
#include <cstdio>
using namespace GeographicLib;
int main(){
  GravityModel g("synth", "/var/tmp/rp/grav");
  double X=4e6,Y=3e6,Z=4.5e6, dX,dY,dZ;
  double T0=g.T(X,Y,Z), T1=g.T(X,Y,Z,dX,dY,dZ);
  double gx,gy,gz; double W=g.W(X,Y,Z,gx,gy,gz), U=g.U(X,Y,Z,gx,gy,gz);
  printf("T(no grad)=%.10f  T(grad)=%.10f  W-U=%.10f\n",T0,T1,W-U);
  return T0==T1?0:1;
}
