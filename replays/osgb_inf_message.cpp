#include <GeographicLib/OSGB.hpp>
#include <iostream>
#include <limits>
using namespace GeographicLib;
int main(){
  double inf = std::numeric_limits<double>::infinity();
  std::string s;
  for (double x : {inf, -inf, 1e300, 800000.0, -123456.0}) {
    try { OSGB::GridReference(x, 100000.0, 2, s); std::cout << "ok " << s << "\n"; }
    catch (const std::exception& e) { std::cout << e.what() << "\n"; }
  }
}
