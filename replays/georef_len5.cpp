// Georef::Reverse accepted a 4-letter code followed by ONE arbitrary character ("GJPJ5", "GJPJ!", "GJPJx") as a
// precision-0 code: for len == 5, prec1 = (2 + 5 - 4)/2 - 1 = 0 and the checks on the trailing portion (digits only,
// even count) sat inside `if (prec1 > 0)`.  First reported by a seeding sub-agent (round 10).
// Build: g++ -std=gnu++17 -I<tree>/include -I/repo/_build/include replays/georef_len5.cpp <tree>/src/Georef.cpp
//        <tree>/src/Utility.cpp <tree>/src/Math.cpp -o r ; ./r ; exit status 1 = the defect is present.
#include <GeographicLib/Georef.hpp>
#include <cstdio>
using namespace GeographicLib;
int main() {
  int bad = 0;
  const char* invalid[] = {"GJPJ5", "GJPJ!", "GJPJx", "GJPJ ", "AAAA0"};
  for (const char* s : invalid) {
    double lat, lon; int prec;
    try { Georef::Reverse(s, lat, lon, prec); printf("accepted \"%s\" -> %g %g prec %d\n", s, lat, lon, prec); ++bad; }
    catch (const GeographicErr& e) { printf("rejected \"%s\": %s\n", s, e.what()); }
  }
  // valid codes keep decoding
  const char* valid[] = {"GJ", "GJPJ", "GJPJ3417", "GJPJ342171", "gjpj3417"};
  for (const char* s : valid) {
    double lat, lon; int prec;
    try { Georef::Reverse(s, lat, lon, prec); }
    catch (const GeographicErr& e) { printf("valid \"%s\" rejected: %s\n", s, e.what()); ++bad; }
  }
  printf(bad ? "DEFECT PRESENT\n" : "ok\n");
  return bad ? 1 : 0;
}
