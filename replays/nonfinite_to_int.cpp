// Float-to-integer conversions of values that may be NaN, infinite or huge (rule X7c, property C13).
// Build with UBSan:  clang++ -std=gnu++17 -fsanitize=float-cast-overflow,signed-integer-overflow
//   -fno-sanitize-recover=all -I/repo/include -I/repo/_build/include replays/nonfinite_to_int.cpp /repo/src/*.cpp
// Run:  ./a.out <scratch dir> <case 0..6>; a case that is undefined behaviour aborts with a UBSan report.
#include <GeographicLib/Geoid.hpp>
#include <GeographicLib/MagneticModel.hpp>
#include <GeographicLib/DMS.hpp>
#include <GeographicLib/UTMUPS.hpp>
#include <GeographicLib/MGRS.hpp>
#include <GeographicLib/Intersect.hpp>
#include <GeographicLib/Geodesic.hpp>
#include <cstdio>
#include <cstdlib>
#include <fstream>
#include <limits>
#include <string>
using namespace GeographicLib;

static void geoidfile(const std::string& dir) {
  std::ofstream f((dir + "/tiny.pgm").c_str(), std::ios::binary);
  const int w = 8, h = 5;
  f << "P5\n# Offset -100\n# Scale 0.01\n" << w << " " << h << "\n65535\n";
  for (int i = 0; i < w * h; ++i) { unsigned v = 10000 + 7 * i; f.put(char(v >> 8)); f.put(char(v & 0xff)); }
}
static void magfiles(const std::string& dir) {
  std::ofstream m((dir + "/tiny.wmm").c_str());
  m << "WMMF-1\nName tiny\nDescription synthetic\nReleaseDate 2020-01-01\nRadius 6371200\nType Linear\n"
       "Epoch 2020\nDeltaEpoch 5\nNumModels 1\nMinTime 2020\nMaxTime 2025\nMinHeight -1000\nMaxHeight 850000\n"
       "Normalization Schmidt\nByteOrder Little\nID TINYTINY\n";
  std::ofstream c((dir + "/tiny.wmm.cof").c_str(), std::ios::binary);
  c.write("TINYTINY", 8);
  for (int k = 0; k < 2; ++k) {           // the model and its secular variation
    int nm[2] = {1, 1};
    double C[3] = {0, -29404.8 * (k ? 1e-3 : 1), -1450.9 * (k ? 1e-3 : 1)}, S[1] = {4652.5 * (k ? 1e-3 : 1)};
    c.write((const char*)nm, sizeof nm); c.write((const char*)C, sizeof C); c.write((const char*)S, sizeof S);
  }
}

int main(int argc, char** argv) {
  if (argc < 3) return 2;
  const std::string dir = argv[1];
  const int which = atoi(argv[2]);
  const double inf = std::numeric_limits<double>::infinity(), nan = std::numeric_limits<double>::quiet_NaN();
  try {
    switch (which) {
    case 0: { geoidfile(dir); Geoid g("tiny", dir, false);
        printf("Geoid::height(10, inf) = %g\n", g(10, inf)); break; }
    case 1: { geoidfile(dir); Geoid g("tiny", dir, false);
        g.CacheArea(-100, 0, 100, 10);     // latitudes outside [-90, 90]: LatFix gives NaN
        printf("Geoid::CacheArea(-100, 0, 100, 10) returned; cache %d\n", int(g.Cache())); break; }
    case 2: { magfiles(dir); MagneticModel m("tiny", dir);
        double Bx, By, Bz; m(nan, 10, 20, 0, Bx, By, Bz);
        printf("MagneticModel(t = NaN) = %g %g %g\n", Bx, By, Bz); break; }
    case 3: { double d, m; DMS::Encode(1e300, d, m);
        printf("DMS::Encode(1e300) -> d = %g m = %g\n", d, m); break; }
    case 4: printf("UTMUPS::StandardZone(inf, 3, UTM) = %d\n", UTMUPS::StandardZone(inf, 3, UTMUPS::UTM)); break;
    case 5: { std::string s; MGRS::Forward(31, true, 500000, 1000000, inf, 2, s);
        printf("MGRS::Forward(31, N, 500000, 1000000, lat = inf) = %s\n", s.c_str()); break; }
    case 6: { Intersect I(Geodesic::WGS84());
        std::vector<Intersect::Point> v = I.All(0, 0, 45, 10, 10, 30, inf);
        printf("Intersect::All(maxdist = inf): %d points\n", int(v.size())); break; }
    }
  } catch (const std::exception& e) { printf("exception: %s\n", e.what()); }
  return 0;
}
