#include <GeographicLib/UTMUPS.hpp>
#include <GeographicLib/Geohash.hpp>
#include <iostream>
#include <limits>
using namespace GeographicLib;
int main(){
  double inf = std::numeric_limits<double>::infinity();
  std::cout << "StandardZone(10, inf) = " << UTMUPS::StandardZone(10, inf) << " (INVALID = " << int(UTMUPS::INVALID) << ")\n";
  std::string s; Geohash::Forward(10, inf, 6, s); std::cout << "Geohash::Forward(10, inf, 6) = " << s << "\n";
}
