#include <GeographicLib/Rhumb.hpp>
#include <GeographicLib/DAuxLatitude.hpp>
#include <cstdio>
#include <cmath>
using namespace GeographicLib;
int main(){
  int bad=0, tot=0;
  double fs[]={0.01,-0.3,1/298.257223563,0.1};
  for(double f: fs){
    Rhumb r(6378137,f,true);
    for(double lat=46; lat<90; lat+=1) for(double s=100000; s<=900000; s+=100000){
      double lat2,lon2,S12;
      r.Direct(lat,0,90,s,lat2,lon2,S12);
      ++tot;
      if(std::isnan(S12)){ if(bad<5) printf("f=%g Direct(%g,0,90,%g) -> lat2 %.12f lon2 %.12f S12 %g\n",f,lat,s,lat2,lon2,S12); ++bad;}
    }
  }
  printf("%d of %d exact east-west direct courses return S12 = NaN\n",bad,tot);
  return bad?1:0;
}
