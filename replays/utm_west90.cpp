#include <GeographicLib/UTMUPS.hpp>
#include <GeographicLib/TransverseMercator.hpp>
#include <cstdio>
#include <cmath>
#include <exception>
using namespace GeographicLib;
int main(){
  int bad=0;
  double lons[]={-165,-164.9999999,15,-165.0000001, 105};
  for(double lon: lons){
    int zone; bool northp; double x=-1,y=-1;
    try{ UTMUPS::Forward(0.0, lon, zone, northp, x, y, 18); printf("Forward(0,%.7f,setzone=18) -> zone %d x %g y %g  (no exception)\n",lon,zone,x,y); if(std::isnan(x)) ++bad; }
    catch(const std::exception& e){ printf("Forward(0,%.7f,setzone=18) throws: %s\n",lon,e.what()); }
  }
  for(double lat: {0.0,-0.0,1e-300,10.0}){
    int zone; bool northp; double x=-1,y=-1;
    try{ UTMUPS::Forward(lat, -165, zone, northp, x, y, 18); printf("Forward(%g,-165,18) -> zone %d x %g y %g\n",lat,zone,x,y); if(std::isnan(x)) ++bad;}
    catch(const std::exception& e){ printf("Forward(%g,-165,18) throws: %s\n",lat,e.what()); }
  }
  double x,y,g,k; TransverseMercator::UTM().Forward(-75, 0, -165, x,y,g,k); printf("TM.Forward(lon0=-75,0,-165): x %g y %g\n",x,y);
  return bad?1:0;
}
