#include <GeographicLib/GARS.hpp>
#include <GeographicLib/Georef.hpp>
#include <GeographicLib/Geohash.hpp>
#include <GeographicLib/Math.hpp>
#include <iostream>
#include <limits>
#include <cstring>
using namespace GeographicLib;
int main(int argc, char** argv){
  double inf = std::numeric_limits<double>::infinity();
  std::cout << "AngNormalize(inf)=" << Math::AngNormalize(inf) << "\n";
  std::string s;
  int which = argc > 1 ? atoi(argv[1]) : 0;
  try {
    if (which == 0) { GARS::Forward(10, inf, 1, s); std::cout << "GARS: [" << s << "]\n"; }
    if (which == 1) { Georef::Forward(10, inf, 2, s); std::cout << "Georef: [" << s << "] first char code " << int((unsigned char)s[0]) << "\n"; }
    if (which == 2) { Geohash::Forward(10, inf, 6, s); std::cout << "Geohash: [" << s << "]\n"; }
  } catch (const std::exception& e) { std::cout << "exception " << e.what() << "\n"; }
}
