// Three defects first reported by seeding sub-agents (round 9) and confirmed here against the real code.
// Build (ASan shows case 0):  clang++ -std=gnu++17 -g -fsanitize=address,undefined -fno-sanitize-recover=all
//   -I<tree>/include -I/repo/_build/include replays/dms_lcc_jn.cpp <tree>/src/*.cpp -o r
// Run: ./r <case 0..2>; exit status 1 (or a sanitizer abort) = the defect is present.
#include <GeographicLib/DMS.hpp>
#include <GeographicLib/LambertConformalConic.hpp>
#include <GeographicLib/NormalGravity.hpp>
#include <GeographicLib/Constants.hpp>
#include <cmath>
#include <cstdio>
#include <cstdlib>
#include <limits>
using namespace GeographicLib;
int main(int argc, char** argv) {
  int which = argc > 1 ? atoi(argv[1]) : 0, bad = 0;
  const double nan = std::numeric_limits<double>::quiet_NaN();
  try {
    if (which == 0) {
      // a fourth ':' after three components indexes ipieces[3] / fpieces[3] (real[3]) in DMS::InternalDecode
      DMS::flag ind;
      try { double v = DMS::Decode("1:2:3:4:5", ind); printf("Decode(1:2:3:4:5) = %g\n", v); }
      catch (const GeographicErr& e) { printf("Decode(1:2:3:4:5) throws: %s\n", e.what()); }
      std::string s = "1";
      for (int i = 2; i <= 40; ++i) s += ":" + std::to_string(i);
      try { double v = DMS::Decode(s, ind); printf("Decode(40 components) = %g\n", v); }
      catch (const GeographicErr& e) { printf("Decode(40 components) throws: %s\n", e.what()); }
    }
    if (which == 1) {
      LambertConformalConic l(Constants::WGS84_a(), Constants::WGS84_f(), 40, 60, 1);
      double lat, lon, gamma, k;
      l.Reverse(0, nan, 0, lat, lon, gamma, k);
      printf("LCC.Reverse(0, NaN, 0): lat %g lon %g gamma %g k %g\n", lat, lon, gamma, k);
      if (!std::isnan(lat) || !std::isnan(k)) ++bad;
      l.Reverse(0, 0, nan, lat, lon, gamma, k);
      printf("LCC.Reverse(0, 0, NaN): lat %g lon %g gamma %g k %g\n", lat, lon, gamma, k);
      if (!std::isnan(lat) || !std::isnan(k)) ++bad;
      // the clamp itself still works
      l.Reverse(0, 0, -1e12, lat, lon, gamma, k);
      printf("LCC.Reverse(0, 0, -1e12): lat %g k %g\n", lat, k);
      if (std::isnan(lat)) ++bad;
    }
    if (which == 2) {
      NormalGravity s(6378137, 3.986004418e14, 7.292115e-5, 0.0, true);     // a sphere: f = 0
      NormalGravity e(6378137, 3.986004418e14, 7.292115e-5, 1e-12, true);
      for (int n = 0; n <= 8; n += 2) {
        printf("f = 0: J%d = %.6g    f = 1e-12: J%d = %.6g\n", n, s.DynamicalFormFactor(n), n, e.DynamicalFormFactor(n));
        if (std::isnan(s.DynamicalFormFactor(n))) ++bad;
      }
      // unchanged for WGS84 (GRS80 value of J4 is -2.37091222e-6)
      printf("WGS84 J2 %.12g J4 %.12g J6 %.12g\n", NormalGravity::WGS84().DynamicalFormFactor(2),
             NormalGravity::WGS84().DynamicalFormFactor(4), NormalGravity::WGS84().DynamicalFormFactor(6));
    }
  } catch (const std::exception& e) { printf("exception: %s\n", e.what()); }
  printf(bad ? "DEFECT PRESENT\n" : "ok\n");
  return bad ? 1 : 0;
}
