#include <GeographicLib/AlbersEqualArea.hpp>
#include <GeographicLib/LambertConformalConic.hpp>
#include <GeographicLib/Constants.hpp>
#include <cstdio>
#include <cmath>
using namespace GeographicLib;
int main(){
  // southern Albers cone
  AlbersEqualArea alb(Constants::WGS84_a(), Constants::WGS84_f(), -30.0, -50.0, 1.0);
  double x,y,lat,lon,g,k;
  alb.Forward(0, -35, 10, x, y, g, k);
  alb.Reverse(0, x, y, lat, lon, g, k);
  printf("Albers south: Forward(-35,10)->(%.3f,%.3f) Reverse-> lat %.10f lon %.10f\n", x,y,lat,lon);
  AlbersEqualArea albn(Constants::WGS84_a(), Constants::WGS84_f(), 30.0, 50.0, 1.0);
  albn.Forward(0, 35, 10, x, y, g, k);
  printf("Albers north mirror: Forward(35,10)->(%.3f,%.3f)\n", x,y);
  alb.Forward(0, -35, 10, x, y, g, k);
  printf("Albers south        : Forward(-35,10)->(%.3f,%.3f)  (should be (x,-y) of the north)\n", x,y);
  // LCC SetScale
  LambertConformalConic lcc(Constants::WGS84_a(), Constants::WGS84_f(), 30.0, 50.0, 1.0);
  lcc.SetScale(40, 1.0);
  double x1,y1,x2,y2,k1;
  lcc.Forward(0, 40, 0, x1, y1, g, k1);
  lcc.Forward(0, 40.001, 0, x2, y2, g, k);
  LambertConformalConic ref(Constants::WGS84_a(), Constants::WGS84_f(), 30.0, 50.0, 1.0);
  double xr1,yr1,xr2,yr2,kr;
  ref.Forward(0, 40, 0, xr1, yr1, g, kr);
  ref.Forward(0, 40.001, 0, xr2, yr2, g, k);
  printf("LCC after SetScale(40,1): returned k=%.6f, measured dy ratio vs ref*k_ref: %.6f (ref k=%.6f)\n", k1, (y2-y1)/(yr2-yr1)*kr, kr);
  // meridian: east-west magnification  x at lon=0.001
  lcc.Forward(0, 40, 0.001, x2, y2, g, k);
  ref.Forward(0, 40, 0.001, xr2, yr2, g, k);
  printf("   x ratio (parallel scale) vs ref*kref: %.6f\n", x2/xr2*kr);
}
