#!/usr/bin/env python3
"""Applies each patch of a directory to a scratch worktree of /repo (outside /repo and /verif),
runs every registered check against it (GLV_REPO), and reports which checks raise an alarm.

usage: run_patches.py <dir with *.diff> [expect-silent|expect-loud] [--props C01 ...]
  expect-silent: behaviour-preserving edits; any VIOLATION or exit 2 is a defect of the checker
"""
import json, os, subprocess, sys, tempfile, shutil
VERIF = os.path.dirname(os.path.dirname(os.path.abspath(__file__)))


def sh(cmd, cwd=None, env=None):
    r = subprocess.run(cmd, shell=True, cwd=cwd, env=env, stdout=subprocess.PIPE, stderr=subprocess.STDOUT,
                       universal_newlines=True, errors='replace')
    return r.returncode, r.stdout


def main():
    d = sys.argv[1]
    mode = sys.argv[2] if len(sys.argv) > 2 and not sys.argv[2].startswith('--') else 'expect-silent'
    props = sys.argv[sys.argv.index('--props') + 1:] if '--props' in sys.argv else \
        [c['property_id'] for c in json.load(open(os.path.join(VERIF, 'MANIFEST.json')))['checks']]
    scratch = os.environ.get('VERIF_SCRATCH', '/var/tmp/glverif.%d' % os.getpid())
    wt = os.path.join(scratch, 'wt')
    os.makedirs(scratch, exist_ok=True)
    sh('git -C /repo worktree add --detach %s HEAD' % wt)
    env = dict(os.environ, GLV_REPO=wt, GLV_EVIDENCE=os.path.join(scratch, 'ev'))
    bad = 0
    try:
        for fn in sorted(os.listdir(d)):
            if not fn.endswith('.diff'):
                continue
            sh('git checkout -- .', cwd=wt)
            rc, out = sh('git apply %s' % os.path.join(os.path.abspath(d), fn), cwd=wt)
            if rc != 0:
                print('%s: does not apply: %s' % (fn, out[-200:]))
                bad += 1
                continue
            sh('bin/glcheck --setup', cwd=VERIF, env=env)
            from concurrent.futures import ThreadPoolExecutor
            with ThreadPoolExecutor(8) as ex:
                outs = list(ex.map(lambda p: sh('bin/glcheck %s --tier quick' % p, cwd=VERIF, env=env), props))
            loud = [p for p, (rc, o) in zip(props, outs) if rc == 1]
            broken = [p for p, (rc, o) in zip(props, outs) if rc not in (0, 1)]
            lines = [l for rc, o in outs for l in o.split('\n') if ('[' in l and '] ' in l and ': [' in l) or 'ANALYSIS-BROKEN' in l]
            print('%s: alarms=%s inconclusive=%s' % (fn, loud, broken), flush=True)
            for l in lines[:4]:
                print('     ' + l[:260])
            if mode == 'expect-silent' and (loud or broken):
                bad += 1
            if mode == 'expect-loud' and not loud:
                bad += 1
    finally:
        sh('git -C /repo worktree remove --force %s' % wt)
        shutil.rmtree(scratch, ignore_errors=True)
        import hashlib, glob
        for d in glob.glob(os.path.join(VERIF, 'build', 'cfg-p*-' + hashlib.sha256(wt.encode()).hexdigest()[:8] + '*')):
            shutil.rmtree(d, ignore_errors=True) if os.path.isdir(d) else os.remove(d)
    print('%d problem(s)' % bad)
    return 1 if bad else 0


if __name__ == '__main__':
    sys.exit(main())
