#!/usr/bin/env python3
"""run_rules.py [-j N] <dir with *.diff> ...: applies each patch to its own scratch worktree of /repo (never /repo) and runs
only the named rules (a quick way to try a new rule on all behaviour-preserving edits).  Rules are given as
module:function, e.g. lint:rule_DZ1 bounds:rule_IDX1, after --rules.  Prints the findings per patch."""
import hashlib, glob, os, shutil, subprocess, sys
from concurrent.futures import ThreadPoolExecutor
VERIF = os.path.dirname(os.path.dirname(os.path.abspath(__file__)))

INNER = r'''
import sys, importlib
sys.path.insert(0, %r)
from glv.props import Ctx
ctx = Ctx(tier='quick')
for spec in sys.argv[1:]:
    mod, fn = spec.split(':')
    r = getattr(importlib.import_module('glv.rules.' + mod), fn)(ctx, None)
    r = r[0] if isinstance(r, tuple) else r
    print('RULE %%s %%d/%%d broken=%%s' %% (r.rule, r.discharged, r.obligations, r.broken))
    for v in r.findings:
        print('FINDING %%s %%s %%s :: %%s' %% (v.loc, v.fn, v.symbol, v.msg[:200]))
''' % VERIF


def sh(cmd, cwd=None, env=None):
    r = subprocess.run(cmd, shell=True, cwd=cwd, env=env, stdout=subprocess.PIPE, stderr=subprocess.STDOUT,
                       universal_newlines=True, errors='replace')
    return r.returncode, r.stdout


def one(job):
    patch, rules = job
    tag = hashlib.sha1(patch.encode()).hexdigest()[:10]
    scratch = '/var/tmp/glrr.%d.%s' % (os.getpid(), tag)
    wt = os.path.join(scratch, 'wt')
    os.makedirs(scratch, exist_ok=True)
    sh('git -C /repo worktree add --detach %s HEAD' % wt)
    env = dict(os.environ, GLV_REPO=wt, GLV_EVIDENCE=os.path.join(scratch, 'ev'))
    try:
        rc, out = sh('git apply %s' % patch, cwd=wt)
        if rc != 0:
            rc, out = sh('patch -p1 -F3 --no-backup-if-mismatch < %s' % patch, cwd=wt)
        if rc != 0:
            return patch, 'does not apply', []
        sh('bin/glcheck --setup', cwd=VERIF, env=env)
        rc, out = sh('python3 -c %s %s' % (subprocess.list2cmdline([INNER]) if False else "'%s'" % INNER.replace("'", "'\"'\"'"),
                                           ' '.join(rules)), cwd=VERIF, env=env)
        finds = [l for l in out.split('\n') if l.startswith('FINDING') or 'Traceback' in l or 'Error' in l]
        rl = [l for l in out.split('\n') if l.startswith('RULE')]
        return patch, ' '.join(x[5:] for x in rl), finds
    finally:
        sh('git -C /repo worktree remove --force %s' % wt)
        shutil.rmtree(scratch, ignore_errors=True)
        for d in glob.glob(os.path.join(VERIF, 'build', 'cfg-p*-' + hashlib.sha256(wt.encode()).hexdigest()[:8] + '*')):
            shutil.rmtree(d, ignore_errors=True) if os.path.isdir(d) else os.remove(d)


def main():
    args = sys.argv[1:]
    nj = 4
    if args and args[0] == '-j':
        nj = int(args[1]); args = args[2:]
    k = args.index('--rules')
    dirs, rules = args[:k], args[k + 1:]
    jobs = [(os.path.abspath(os.path.join(d, fn)), rules) for d in dirs for fn in sorted(os.listdir(d)) if fn.endswith('.diff')]
    bad = 0
    with ThreadPoolExecutor(nj) as ex:
        for patch, summary, finds in ex.map(one, jobs):
            print('%s: %s' % (os.path.relpath(patch, VERIF), summary), flush=True)
            for l in finds[:4]:
                print('     ' + l[:300])
            if finds or summary == 'does not apply':
                bad += 1
    print('%d patch(es) with findings or not applying' % bad)
    sh('git -C /repo worktree prune')
    return 0


if __name__ == '__main__':
    sys.exit(main())
