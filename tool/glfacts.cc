// glfacts: libTooling fact extractor for the GeographicLib static checks.
//
// For one translation unit it writes a JSON document with every record, enum,
// static-storage variable and function body (incl. template instantiations)
// whose spelling location lies under one of the --root prefixes.  Function
// bodies are emitted as a flat table of AST nodes plus the clang::CFG built
// with BuildOptions::setAllAlwaysAdd() (initialisers included, no EH edges).
//
// Usage: glfacts --out=<file.json> [--root=/repo/] <source> -- <compile flags>
//
// The checker never matches function names in text: every call node carries
// the USR and qualified name of the callee resolved by clang.

#include "clang/AST/ASTConsumer.h"
#include "clang/AST/ASTContext.h"
#include "clang/AST/RecursiveASTVisitor.h"
#include "clang/AST/Mangle.h"
#include "clang/Analysis/CFG.h"
#include "clang/Frontend/CompilerInstance.h"
#include "clang/Frontend/FrontendAction.h"
#include "clang/Index/USRGeneration.h"
#include "clang/Tooling/CommonOptionsParser.h"
#include "clang/Tooling/Tooling.h"
#include "llvm/Support/CommandLine.h"
#include "llvm/Support/JSON.h"
#include "llvm/Support/raw_ostream.h"
#include <map>
#include <set>
#include <string>
#include <vector>

using namespace clang;
namespace json = llvm::json;

static llvm::cl::OptionCategory Cat("glfacts options");
static llvm::cl::opt<std::string> OutFile("out", llvm::cl::desc("output json"),
                                          llvm::cl::cat(Cat));
static llvm::cl::list<std::string> Roots("root", llvm::cl::desc("source roots"),
                                         llvm::cl::cat(Cat));

namespace {

std::string usrOf(const Decl *D) {
  if (!D) return "";
  llvm::SmallString<128> Buf;
  if (index::generateUSRForDecl(D, Buf)) return "";
  return std::string(Buf.str());
}

std::string qnameOf(const NamedDecl *D) {
  if (!D) return "";
  std::string S;
  llvm::raw_string_ostream OS(S);
  D->printQualifiedName(OS);
  return OS.str();
}

struct Extractor {
  ASTContext &Ctx;
  SourceManager &SM;
  std::vector<std::string> RootV;
  json::Array Records, Enums, Vars, Funcs;
  std::set<std::string> SeenFunc, SeenRec, SeenVar, SeenEnum;
  std::map<std::string, int> TypeIdx;
  json::Array Types;

  Extractor(ASTContext &C) : Ctx(C), SM(C.getSourceManager()) {
    for (auto &R : Roots) RootV.push_back(R);
    if (RootV.empty()) RootV.push_back("/repo/");
  }

  std::string fileOf(SourceLocation L) {
    if (L.isInvalid()) return "";
    L = SM.getExpansionLoc(L);
    auto F = SM.getFilename(L);
    return std::string(F);
  }
  unsigned lineOf(SourceLocation L) {
    if (L.isInvalid()) return 0;
    return SM.getExpansionLineNumber(L);
  }
  unsigned colOf(SourceLocation L) {
    if (L.isInvalid()) return 0;
    return SM.getExpansionColumnNumber(L);
  }
  bool inRoots(SourceLocation L) {
    std::string F = fileOf(L);
    for (auto &R : RootV)
      if (F.compare(0, R.size(), R) == 0) return true;
    return false;
  }

  int typeId(QualType T) {
    if (T.isNull()) return -1;
    std::string S = T.getCanonicalType().getAsString(Ctx.getPrintingPolicy());
    auto It = TypeIdx.find(S);
    if (It != TypeIdx.end()) return It->second;
    int I = (int)Types.size();
    Types.push_back(S);
    TypeIdx[S] = I;
    return I;
  }

  // kind of a parameter / field type with respect to mutation through it
  static const char *passKind(QualType T) {
    if (T.isNull()) return "v";
    if (T->isRValueReferenceType()) return "rr";
    if (T->isLValueReferenceType())
      return T->getPointeeType().isConstQualified() ? "cr" : "r";
    if (T->isPointerType())
      return T->getPointeeType().isConstQualified() ? "cp" : "p";
    if (T->isArrayType()) return "a";  // array object (parameters are already decayed)
    return "v";
  }

  std::string declId(const ValueDecl *D) {
    if (!D) return "";
    if (auto *V = dyn_cast<VarDecl>(D)) {
      if (V->isLocalVarDeclOrParm() && !V->isStaticLocal()) {
        std::string S = V->getNameAsString();
        S += "@" + std::to_string(lineOf(V->getLocation())) + ":" +
             std::to_string(colOf(V->getLocation()));
        return S;
      }
    }
    std::string U = usrOf(D);
    if (U.empty()) U = qnameOf(D);
    return U;
  }

  json::Object calleeInfo(const FunctionDecl *FD) {
    json::Object O;
    if (!FD) return O;
    // refer to the template pattern's USR too? keep instantiation USR.
    O["usr"] = usrOf(FD);
    O["q"] = qnameOf(FD);
    O["name"] = FD->getNameAsString();
    O["inrepo"] = inRoots(FD->getLocation());
    O["hasbody"] = FD->hasBody();
    json::Array PK;
    json::Array PN;
    for (auto *P : FD->parameters()) {
      PK.push_back(passKind(P->getType()));
      PN.push_back(P->getNameAsString());
    }
    O["pk"] = std::move(PK);
    O["pn"] = std::move(PN);
    O["variadic"] = FD->isVariadic();
    if (auto *TA = FD->getTemplateSpecializationArgs()) {
      json::Array TAs;
      for (auto &A : TA->asArray()) {
        std::string S;
        llvm::raw_string_ostream OS(S);
        A.print(Ctx.getPrintingPolicy(), OS, true);
        TAs.push_back(OS.str());
      }
      O["targs"] = std::move(TAs);
    }
    if (auto *M = dyn_cast<CXXMethodDecl>(FD)) {
      O["method"] = true;
      O["mconst"] = M->isConst();
      O["mstatic"] = M->isStatic();
      O["virtual"] = M->isVirtual();
      O["cls"] = qnameOf(M->getParent());
      if (isa<CXXConstructorDecl>(M)) O["ctor"] = true;
      if (isa<CXXDestructorDecl>(M)) O["dtor"] = true;
    }
    if (auto *ET = FD->getType()->getAs<FunctionProtoType>()) {
      O["noexcept"] = ET->isNothrow();
    }
    return O;
  }

  struct FnCtx {
    json::Array Nodes;
    std::map<const Stmt *, int> Id;
    std::string File;
    std::vector<const LambdaExpr *> Lambdas;
  };

  json::Object varDeclInfo(const VarDecl *V, FnCtx &FC) {
    json::Object O;
    O["name"] = V->getNameAsString();
    O["d"] = declId(V);
    O["t"] = typeId(V->getType());
    O["pk"] = passKind(V->getType());
    O["static_local"] = V->isStaticLocal();
    QualType T = V->getType().getCanonicalType();
    bool C = T.isConstQualified();
    if (auto *AT = Ctx.getAsArrayType(T))
      C = C || Ctx.getBaseElementType(AT).isConstQualified();
    O["const"] = C;
    O["line"] = (int64_t)lineOf(V->getLocation());
    if (V->hasInit()) O["init"] = emit(V->getInit(), FC);
    return O;
  }

  void refInfo(const ValueDecl *D, json::Object &N) {
    N["d"] = declId(D);
    N["name"] = D->getNameAsString();
    if (auto *V = dyn_cast<ParmVarDecl>(D)) {
      N["rk"] = "param";
      N["pidx"] = (int64_t)V->getFunctionScopeIndex();
    } else if (auto *V = dyn_cast<VarDecl>(D)) {
      if (V->isStaticDataMember()) {
        N["rk"] = "smember";
        N["q"] = qnameOf(V);
      } else if (V->isStaticLocal())
        N["rk"] = "slocal";
      else if (V->isLocalVarDecl())
        N["rk"] = "local";
      else {
        N["rk"] = "global";
        N["q"] = qnameOf(V);
      }
      QualType T = V->getType().getCanonicalType();
      bool C = T.isConstQualified();
      if (auto *AT = Ctx.getAsArrayType(T))
        C = C || Ctx.getBaseElementType(AT).isConstQualified();
      N["vconst"] = C;
    } else if (isa<EnumConstantDecl>(D)) {
      N["rk"] = "enumerator";
      N["q"] = qnameOf(D);
    } else if (auto *F = dyn_cast<FunctionDecl>(D)) {
      N["rk"] = "function";
      N["q"] = qnameOf(F);
    } else if (isa<FieldDecl>(D)) {
      N["rk"] = "field";
      N["q"] = qnameOf(D);
    } else {
      N["rk"] = "other";
    }
  }

  int emit(const Stmt *S, FnCtx &FC) {
    if (!S) return -1;
    auto It = FC.Id.find(S);
    if (It != FC.Id.end()) return It->second;
    int MyId = (int)FC.Nodes.size();
    FC.Id[S] = MyId;
    FC.Nodes.push_back(nullptr);  // placeholder
    json::Object N;
    N["k"] = S->getStmtClassName();
    N["l"] = (int64_t)lineOf(S->getBeginLoc());
    N["c"] = (int64_t)colOf(S->getBeginLoc());
    N["el"] = (int64_t)lineOf(S->getEndLoc());
    {
      std::string F = fileOf(S->getBeginLoc());
      if (!F.empty() && F != FC.File) N["f"] = F;
    }
    if (auto *E = dyn_cast<Expr>(S)) {
      N["t"] = typeId(E->getType());
      if (E->isLValue()) N["lv"] = true;
      if (!E->isValueDependent() && !E->isTypeDependent() && E->isPRValue()) {
        QualType T = E->getType();
        if (T->isIntegralOrEnumerationType()) {
          Expr::EvalResult R;
          if (E->EvaluateAsInt(R, Ctx, Expr::SE_NoSideEffects)) {
            llvm::SmallString<32> B;
            R.Val.getInt().toString(B, 10);
            N["cv"] = std::string(B.str());
          }
        } else if (T->isRealFloatingType()) {
          Expr::EvalResult R;
          if (E->EvaluateAsRValue(R, Ctx) && !R.HasSideEffects &&
              R.Val.isFloat()) {
            llvm::SmallString<32> B;
            R.Val.getFloat().toString(B, 0, 0);
            N["fv"] = std::string(B.str());
          }
        }
      }
    }
    json::Array Ch;
    auto addCh = [&](const Stmt *C) {
      if (C) Ch.push_back(emit(C, FC));
    };
    bool GenericChildren = true;
    if (auto *B = dyn_cast<BinaryOperator>(S)) {
      N["op"] = B->getOpcodeStr().str();
    } else if (auto *U = dyn_cast<UnaryOperator>(S)) {
      N["op"] = UnaryOperator::getOpcodeStr(U->getOpcode()).str();
      N["postfix"] = U->isPostfix();
    } else if (auto *DR = dyn_cast<DeclRefExpr>(S)) {
      refInfo(DR->getDecl(), N);
    } else if (auto *ME = dyn_cast<MemberExpr>(S)) {
      auto *MD = ME->getMemberDecl();
      N["m"] = MD->getNameAsString();
      N["md"] = declId(MD);
      N["arrow"] = ME->isArrow();
      if (auto *FD = dyn_cast<FieldDecl>(MD)) {
        N["mk"] = "field";
        N["cls"] = qnameOf(FD->getParent());
        N["mutable"] = FD->isMutable();
        N["fpk"] = passKind(FD->getType());
      } else if (auto *VD = dyn_cast<VarDecl>(MD)) {
        N["mk"] = "smember";
        N["q"] = qnameOf(VD);
      } else if (isa<CXXMethodDecl>(MD)) {
        N["mk"] = "method";
      } else if (isa<EnumConstantDecl>(MD)) {
        N["mk"] = "enumerator";
        N["q"] = qnameOf(MD);
      } else
        N["mk"] = "other";
      const Expr *Base = ME->getBase()->IgnoreParenImpCasts();
      if (isa<CXXThisExpr>(Base)) N["thisbase"] = true;
    } else if (auto *IL = dyn_cast<IntegerLiteral>(S)) {
      llvm::SmallString<32> B;
      IL->getValue().toString(B, 10, IL->getType()->isSignedIntegerType());
      N["v"] = std::string(B.str());
    } else if (auto *FL = dyn_cast<FloatingLiteral>(S)) {
      llvm::SmallString<32> B;
      FL->getValue().toString(B, 0, 0);
      N["v"] = std::string(B.str());
    } else if (auto *BL = dyn_cast<CXXBoolLiteralExpr>(S)) {
      N["v"] = BL->getValue() ? "1" : "0";
    } else if (auto *CL = dyn_cast<CharacterLiteral>(S)) {
      N["v"] = std::to_string(CL->getValue());
    } else if (auto *SL = dyn_cast<StringLiteral>(S)) {
      if (SL->getCharByteWidth() == 1) {
        json::Array Bytes;
        for (unsigned char c : SL->getBytes()) Bytes.push_back((int64_t)c);
        N["bytes"] = std::move(Bytes);
      }
    } else if (auto *CE = dyn_cast<CastExpr>(S)) {
      N["ck"] = CE->getCastKindName();
      if (auto *EC = dyn_cast<ExplicitCastExpr>(S)) {
        QualType From = EC->getSubExpr()->getType();
        QualType To = EC->getTypeAsWritten();
        // const-dropping casts (pointer / reference)
        bool Drop = false;
        auto pointee = [](QualType T) -> QualType {
          if (T->isPointerType() || T->isReferenceType())
            return T->getPointeeType();
          return QualType();
        };
        QualType FP = pointee(From), TP = pointee(To);
        if (To->isReferenceType() && FP.isNull()) FP = From;
        if (!FP.isNull() && !TP.isNull() && FP.isConstQualified() &&
            !TP.isConstQualified())
          Drop = true;
        N["dropconst"] = Drop;
      }
    } else if (auto *CT = dyn_cast<CXXThrowExpr>(S)) {
      if (CT->getSubExpr())
        N["thrown"] = typeId(CT->getSubExpr()->getType());
      else
        N["rethrow"] = true;
    } else if (auto *CC = dyn_cast<CXXCatchStmt>(S)) {
      if (CC->getExceptionDecl()) {
        N["caught"] = typeId(CC->getCaughtType().getNonReferenceType()
                                 .getUnqualifiedType());
        N["cname"] = CC->getExceptionDecl()->getNameAsString();
      } else
        N["catchall"] = true;
      N["body"] = emit(CC->getHandlerBlock(), FC);
    } else if (auto *TS = dyn_cast<CXXTryStmt>(S)) {
      N["try"] = emit(TS->getTryBlock(), FC);
      json::Array H;
      for (unsigned i = 0; i < TS->getNumHandlers(); ++i)
        H.push_back(emit(TS->getHandler(i), FC));
      N["handlers"] = std::move(H);
    } else if (auto *DS = dyn_cast<DeclStmt>(S)) {
      json::Array Ds;
      for (auto *D : DS->decls())
        if (auto *V = dyn_cast<VarDecl>(D)) Ds.push_back(varDeclInfo(V, FC));
      N["decls"] = std::move(Ds);
    } else if (auto *IS = dyn_cast<IfStmt>(S)) {
      N["cond"] = emit(IS->getCond(), FC);
      N["then"] = emit(IS->getThen(), FC);
      N["else"] = emit(IS->getElse(), FC);
      if (IS->getInit()) N["init"] = emit(IS->getInit(), FC);
    } else if (auto *FS = dyn_cast<ForStmt>(S)) {
      N["init"] = emit(FS->getInit(), FC);
      N["cond"] = emit(FS->getCond(), FC);
      N["inc"] = emit(FS->getInc(), FC);
      N["body"] = emit(FS->getBody(), FC);
    } else if (auto *WS = dyn_cast<WhileStmt>(S)) {
      N["cond"] = emit(WS->getCond(), FC);
      N["body"] = emit(WS->getBody(), FC);
    } else if (auto *DS2 = dyn_cast<DoStmt>(S)) {
      N["cond"] = emit(DS2->getCond(), FC);
      N["body"] = emit(DS2->getBody(), FC);
    } else if (auto *RF = dyn_cast<CXXForRangeStmt>(S)) {
      N["body"] = emit(RF->getBody(), FC);
    } else if (auto *SS = dyn_cast<SwitchStmt>(S)) {
      N["cond"] = emit(SS->getCond(), FC);
      N["body"] = emit(SS->getBody(), FC);
    } else if (auto *CS = dyn_cast<CaseStmt>(S)) {
      N["lhs"] = emit(CS->getLHS(), FC);
      N["sub"] = emit(CS->getSubStmt(), FC);
    } else if (auto *CO = dyn_cast<ConditionalOperator>(S)) {
      N["cond"] = emit(CO->getCond(), FC);
      N["then"] = emit(CO->getTrueExpr(), FC);
      N["else"] = emit(CO->getFalseExpr(), FC);
    } else if (auto *RS = dyn_cast<ReturnStmt>(S)) {
      N["val"] = emit(RS->getRetValue(), FC);
    } else if (auto *LE = dyn_cast<LambdaExpr>(S)) {
      FC.Lambdas.push_back(LE);
      N["lambda"] = usrOf(LE->getCallOperator());
      GenericChildren = false;
      for (auto *I : LE->capture_inits()) addCh(I);
    } else if (auto *NE = dyn_cast<CXXNewExpr>(S)) {
      N["array"] = NE->isArray();
    } else if (auto *TE = dyn_cast<UnaryExprOrTypeTraitExpr>(S)) {
      (void)TE;
      GenericChildren = false;  // sizeof operand is unevaluated
    }
    // calls
    if (auto *CE = dyn_cast<CallExpr>(S)) {
      const FunctionDecl *FD = CE->getDirectCallee();
      if (FD) N["callee"] = calleeInfo(FD);
      else {
        // indirect: record the type of the callee expression
        N["indirect"] = true;
      }
      if (isa<CXXMemberCallExpr>(S)) {
        N["ckind"] = "member";
        auto *MC = cast<CXXMemberCallExpr>(S);
        if (auto *Obj = MC->getImplicitObjectArgument()) {
          N["obj"] = emit(Obj, FC);
          N["objthis"] =
              isa<CXXThisExpr>(Obj->IgnoreParenImpCasts());
        }
      } else if (isa<CXXOperatorCallExpr>(S)) {
        N["ckind"] = "operator";
        N["op"] = getOperatorSpelling(
            cast<CXXOperatorCallExpr>(S)->getOperator());
      } else
        N["ckind"] = "call";
      json::Array Args;
      for (auto *A : CE->arguments()) Args.push_back(emit(A, FC));
      N["args"] = std::move(Args);
    } else if (auto *CE2 = dyn_cast<CXXConstructExpr>(S)) {
      N["callee"] = calleeInfo(CE2->getConstructor());
      N["ckind"] = "construct";
      N["elidable"] = CE2->isElidable();
      json::Array Args;
      for (auto *A : CE2->arguments()) Args.push_back(emit(A, FC));
      N["args"] = std::move(Args);
    }
    if (GenericChildren)
      for (const Stmt *C : S->children()) addCh(C);
    N["ch"] = std::move(Ch);
    FC.Nodes[MyId] = std::move(N);
    return MyId;
  }

  void emitFunction(const FunctionDecl *F) {
    if (!F->doesThisDeclarationHaveABody()) return;
    if (F->isDependentContext()) return;
    if (F->isDeleted()) return;
    std::string U = usrOf(F);
    // distinguish lambdas etc. with empty USR
    if (U.empty()) U = qnameOf(F) + "@" + std::to_string(lineOf(F->getLocation()));
    if (!SeenFunc.insert(U).second) return;
    json::Object O;
    O["usr"] = U;
    O["q"] = qnameOf(F);
    O["name"] = F->getNameAsString();
    FnCtx FC;
    FC.File = fileOf(F->getLocation());
    O["file"] = FC.File;
    O["line"] = (int64_t)lineOf(F->getLocation());
    O["endline"] = (int64_t)lineOf(F->getEndLoc());
    O["ret"] = typeId(F->getReturnType());
    O["inline"] = F->isInlined();
    O["tinst"] = F->isTemplateInstantiation();
    O["implicit"] = F->isImplicit() || F->isDefaulted();
    switch (F->getAccess()) {
    case AS_public: O["access"] = "public"; break;
    case AS_protected: O["access"] = "protected"; break;
    case AS_private: O["access"] = "private"; break;
    default: O["access"] = "none"; break;
    }
    O["linkage_internal"] = !F->isExternallyVisible();
    if (auto *M = dyn_cast<CXXMethodDecl>(F)) {
      O["method"] = true;
      O["const"] = M->isConst();
      O["static"] = M->isStatic();
      O["virtual"] = M->isVirtual();
      O["cls"] = qnameOf(M->getParent());
      O["clsusr"] = usrOf(M->getParent());
      // access of the class chain: a public method of a private nested class
      // is not public API
      bool NestedPrivate = false;
      const DeclContext *DC = M->getParent();
      while (auto *RD = dyn_cast_or_null<CXXRecordDecl>(DC)) {
        if (RD->getAccess() == AS_private || RD->getAccess() == AS_protected)
          NestedPrivate = true;
        DC = RD->getParent();
      }
      O["nested_private"] = NestedPrivate;
      O["ctor"] = isa<CXXConstructorDecl>(M);
      O["dtor"] = isa<CXXDestructorDecl>(M);
    } else {
      O["method"] = false;
    }
    json::Array Ps;
    for (auto *P : F->parameters()) {
      json::Object PO;
      PO["name"] = P->getNameAsString();
      PO["d"] = declId(P);
      PO["t"] = typeId(P->getType());
      PO["pk"] = passKind(P->getType());
      QualType BT = P->getType().getNonReferenceType();
      if (BT->isPointerType()) BT = BT->getPointeeType();
      PO["float"] = BT->isRealFloatingType();
      PO["int"] = BT->isIntegralOrEnumerationType();
      Ps.push_back(std::move(PO));
    }
    O["params"] = std::move(Ps);
    // constructor initialisers
    json::Array Inits;
    std::map<const CXXCtorInitializer *, int> InitIdx;
    if (auto *CD = dyn_cast<CXXConstructorDecl>(F)) {
      for (auto *I : CD->inits()) {
        json::Object IO;
        if (I->isAnyMemberInitializer()) {
          IO["kind"] = "member";
          IO["m"] = I->getAnyMember()->getNameAsString();
          IO["md"] = declId(I->getAnyMember());
        } else if (I->isBaseInitializer()) {
          IO["kind"] = "base";
          IO["t"] = typeId(QualType(I->getBaseClass(), 0));
        } else if (I->isDelegatingInitializer()) {
          IO["kind"] = "delegating";
        }
        IO["written"] = I->isWritten();
        IO["init"] = emit(I->getInit(), FC);
        IO["l"] = (int64_t)lineOf(I->getSourceLocation());
        InitIdx[I] = (int)Inits.size();
        Inits.push_back(std::move(IO));
      }
    }
    int Body = emit(F->getBody(), FC);
    O["body"] = Body;
    // CFG
    CFG::BuildOptions BO;
    BO.setAllAlwaysAdd();
    BO.AddInitializers = true;
    BO.AddEHEdges = false;
    BO.AddImplicitDtors = false;
    BO.AddTemporaryDtors = false;
    std::unique_ptr<CFG> G =
        CFG::buildCFG(F, F->getBody(), &Ctx, BO);
    if (G) {
      json::Array Blocks;
      for (const CFGBlock *B : *G) {
        json::Object BOj;
        BOj["id"] = (int64_t)B->getBlockID();
        json::Array Els;
        for (const CFGElement &E : *B) {
          if (auto CS = E.getAs<CFGStmt>()) {
            Els.push_back(emit(CS->getStmt(), FC));
          } else if (auto CI = E.getAs<CFGInitializer>()) {
            auto It = InitIdx.find(CI->getInitializer());
            json::Object IO;
            IO["init"] = It == InitIdx.end() ? -1 : It->second;
            Els.push_back(std::move(IO));
          }
        }
        BOj["els"] = std::move(Els);
        json::Array Succ;
        for (auto SI = B->succ_begin(); SI != B->succ_end(); ++SI) {
          const CFGBlock *SB = SI->getReachableBlock();
          if (!SB) SB = SI->getPossiblyUnreachableBlock();
          if (SB) {
            json::Object SO;
            SO["b"] = (int64_t)SB->getBlockID();
            SO["reach"] = SI->isReachable();
            Succ.push_back(std::move(SO));
          } else
            Succ.push_back(nullptr);
        }
        BOj["succ"] = std::move(Succ);
        if (const Stmt *T = B->getTerminatorStmt()) {
          BOj["term"] = emit(T, FC);
          BOj["termk"] = T->getStmtClassName();
        }
        if (const Stmt *TC = B->getTerminatorCondition(false))
          BOj["cond"] = emit(TC, FC);
        if (const Stmt *L = B->getLabel()) BOj["label"] = emit(L, FC);
        if (B->hasNoReturnElement()) BOj["noreturn"] = true;
        Blocks.push_back(std::move(BOj));
      }
      json::Object CO;
      CO["blocks"] = std::move(Blocks);
      CO["entry"] = (int64_t)G->getEntry().getBlockID();
      CO["exit"] = (int64_t)G->getExit().getBlockID();
      O["cfg"] = std::move(CO);
    }
    O["inits"] = std::move(Inits);
    O["nodes"] = std::move(FC.Nodes);
    Funcs.push_back(std::move(O));
    for (auto *LE : FC.Lambdas)
      if (LE->getCallOperator()) emitFunction(LE->getCallOperator());
  }

  void emitRecord(const CXXRecordDecl *R) {
    if (!R->isCompleteDefinition() || R->isDependentContext()) return;
    if (R->isLambda()) return;
    std::string U = usrOf(R);
    if (!SeenRec.insert(U).second) return;
    json::Object O;
    O["usr"] = U;
    O["q"] = qnameOf(R);
    O["file"] = fileOf(R->getLocation());
    O["line"] = (int64_t)lineOf(R->getLocation());
    O["tinst"] = isa<ClassTemplateSpecializationDecl>(R);
    json::Array Fs;
    for (auto *F : R->fields()) {
      json::Object FO;
      FO["name"] = F->getNameAsString();
      FO["d"] = declId(F);
      FO["t"] = typeId(F->getType());
      FO["mutable"] = F->isMutable();
      FO["const"] = F->getType().isConstQualified();
      FO["pk"] = passKind(F->getType());
      FO["line"] = (int64_t)lineOf(F->getLocation());
      FO["inclassinit"] = F->hasInClassInitializer();
      QualType T = F->getType();
      if (auto *AT = Ctx.getAsArrayType(T)) T = Ctx.getBaseElementType(AT);
      T = T.getNonReferenceType();
      if (T->isPointerType()) T = T->getPointeeType();
      if (auto *RD = T->getAsCXXRecordDecl()) {
        FO["rec"] = qnameOf(RD);
        FO["recusr"] = usrOf(RD);
        if (auto *TS = dyn_cast<ClassTemplateSpecializationDecl>(RD)) {
          json::Array TA;
          for (auto &A : TS->getTemplateArgs().asArray())
            if (A.getKind() == TemplateArgument::Type)
              if (auto *AR = A.getAsType()->getAsCXXRecordDecl())
                TA.push_back(qnameOf(AR));
          FO["targs"] = std::move(TA);
        }
      }
      Fs.push_back(std::move(FO));
    }
    O["fields"] = std::move(Fs);
    json::Array Bs;
    for (auto &B : R->bases())
      if (auto *BD = B.getType()->getAsCXXRecordDecl()) Bs.push_back(qnameOf(BD));
    O["bases"] = std::move(Bs);
    json::Array Ms;
    for (auto *M : R->methods()) {
      json::Object MO;
      MO["usr"] = usrOf(M);
      MO["name"] = M->getNameAsString();
      MO["const"] = M->isConst();
      MO["static"] = M->isStatic();
      MO["implicit"] = M->isImplicit();
      MO["defaulted"] = M->isDefaulted();
      MO["deleted"] = M->isDeleted();
      MO["ctor"] = isa<CXXConstructorDecl>(M);
      switch (M->getAccess()) {
      case AS_public: MO["access"] = "public"; break;
      case AS_protected: MO["access"] = "protected"; break;
      case AS_private: MO["access"] = "private"; break;
      default: MO["access"] = "none"; break;
      }
      MO["line"] = (int64_t)lineOf(M->getLocation());
      Ms.push_back(std::move(MO));
    }
    O["methods"] = std::move(Ms);
    Records.push_back(std::move(O));
  }

  void emitEnum(const EnumDecl *E) {
    if (!E->isCompleteDefinition()) return;
    std::string U = usrOf(E);
    if (U.empty()) U = qnameOf(E) + "@" + std::to_string(lineOf(E->getLocation()));
    if (!SeenEnum.insert(U).second) return;
    json::Object O;
    O["usr"] = U;
    O["q"] = qnameOf(E);
    O["name"] = E->getNameAsString();
    if (auto *P = dyn_cast<NamedDecl>(E->getDeclContext())) O["parent"] = qnameOf(P);
    O["file"] = fileOf(E->getLocation());
    O["line"] = (int64_t)lineOf(E->getLocation());
    json::Array Es;
    for (auto *C : E->enumerators()) {
      json::Object CO;
      CO["name"] = C->getNameAsString();
      llvm::SmallString<32> B;
      C->getInitVal().toString(B, 10);
      CO["v"] = std::string(B.str());
      CO["line"] = (int64_t)lineOf(C->getLocation());
      Es.push_back(std::move(CO));
    }
    O["enumerators"] = std::move(Es);
    Enums.push_back(std::move(O));
  }

  void emitVar(const VarDecl *V) {
    if (!V->hasGlobalStorage()) return;
    if (V->getDeclContext()->isDependentContext()) return;
    if (isa<ParmVarDecl>(V)) return;
    std::string U = usrOf(V);
    if (U.empty()) U = qnameOf(V);
    std::string Key = U + (V->hasInit() ? "#i" : "#d");
    if (!SeenVar.insert(Key).second) return;
    json::Object O;
    O["usr"] = U;
    O["q"] = qnameOf(V);
    O["name"] = V->getNameAsString();
    O["file"] = fileOf(V->getLocation());
    O["line"] = (int64_t)lineOf(V->getLocation());
    O["t"] = typeId(V->getType());
    QualType T = V->getType().getCanonicalType();
    bool C = T.isConstQualified();
    if (auto *AT = Ctx.getAsArrayType(T))
      C = C || Ctx.getBaseElementType(AT).isConstQualified();
    O["const"] = C;
    O["constexpr"] = V->isConstexpr();
    O["tls"] = V->getTLSKind() != VarDecl::TLS_None;
    O["kind"] = V->isStaticLocal()
                    ? "static_local"
                    : (V->isStaticDataMember() ? "static_member" : "namespace");
    O["isdef"] = V->isThisDeclarationADefinition() == VarDecl::Definition;
    if (V->isStaticLocal())
      if (auto *FD = dyn_cast<FunctionDecl>(V->getDeclContext())) {
        O["fn"] = usrOf(FD);
        O["fnq"] = qnameOf(FD);
      }
    if (V->isStaticDataMember())
      if (auto *RD = dyn_cast<CXXRecordDecl>(V->getDeclContext()))
        O["cls"] = qnameOf(RD);
    if (V->hasInit()) {
      FnCtx FC;
      FC.File = fileOf(V->getLocation());
      int I = emit(V->getInit(), FC);
      O["init"] = I;
      O["nodes"] = std::move(FC.Nodes);
    }
    Vars.push_back(std::move(O));
  }
};

class Visitor : public RecursiveASTVisitor<Visitor> {
public:
  Extractor &X;
  explicit Visitor(Extractor &X) : X(X) {}
  bool shouldVisitTemplateInstantiations() const { return true; }
  bool shouldVisitImplicitCode() const { return false; }
  bool VisitFunctionDecl(FunctionDecl *F) {
    if (X.inRoots(F->getLocation())) X.emitFunction(F);
    return true;
  }
  bool VisitCXXRecordDecl(CXXRecordDecl *R) {
    if (X.inRoots(R->getLocation())) X.emitRecord(R);
    return true;
  }
  bool VisitEnumDecl(EnumDecl *E) {
    if (X.inRoots(E->getLocation())) X.emitEnum(E);
    return true;
  }
  bool VisitVarDecl(VarDecl *V) {
    if (X.inRoots(V->getLocation())) X.emitVar(V);
    return true;
  }
};

class Consumer : public ASTConsumer {
public:
  std::string Main;
  void HandleTranslationUnit(ASTContext &Ctx) override {
    if (Ctx.getDiagnostics().hasErrorOccurred()) {
      llvm::errs() << "glfacts: errors in translation unit, no output\n";
      return;
    }
    Extractor X(Ctx);
    Visitor V(X);
    V.TraverseDecl(Ctx.getTranslationUnitDecl());
    json::Object Root;
    Root["main"] = Main;
    Root["types"] = std::move(X.Types);
    Root["records"] = std::move(X.Records);
    Root["enums"] = std::move(X.Enums);
    Root["vars"] = std::move(X.Vars);
    Root["functions"] = std::move(X.Funcs);
    std::error_code EC;
    llvm::raw_fd_ostream OS(OutFile, EC);
    if (EC) {
      llvm::errs() << "glfacts: cannot write " << OutFile << "\n";
      return;
    }
    OS << json::Value(std::move(Root)) << "\n";
  }
};

class Action : public ASTFrontendAction {
public:
  std::unique_ptr<ASTConsumer> CreateASTConsumer(CompilerInstance &CI,
                                                 StringRef File) override {
    auto C = std::make_unique<Consumer>();
    C->Main = File.str();
    return C;
  }
};

}  // namespace

int main(int argc, const char **argv) {
  auto Exp = tooling::CommonOptionsParser::create(argc, argv, Cat);
  if (!Exp) {
    llvm::errs() << llvm::toString(Exp.takeError());
    return 2;
  }
  tooling::ClangTool Tool(Exp->getCompilations(), Exp->getSourcePathList());
  int R = Tool.run(tooling::newFrontendActionFactory<Action>().get());
  return R;
}
