// Header-only classes that no library unit includes: pulled in here so that their inline member
// functions are extracted and judged by the same rules.  Analysed as one more unit; never linked.
#include <GeographicLib/SphericalHarmonic.hpp>
#include <GeographicLib/SphericalHarmonic1.hpp>
#include <GeographicLib/SphericalHarmonic2.hpp>
