// Positive controls: one violating construct per rule whose expected count on the real tree is
// zero.  This unit is pushed through the same extractor and rule code on every run; a rule that
// does not report its control is broken (exit 2).  It is never linked into anything.
#include <GeographicLib/Constants.hpp>
#include <GeographicLib/Math.hpp>
#include <GeographicLib/Utility.hpp>
#include <GeographicLib/AuxLatitude.hpp>
#include <algorithm>
#include <cmath>
#include <cstring>
#include <stdexcept>
#include <string>
#include <vector>

namespace GeographicLib {

  class FixtureShared {
  public:
    typedef Math::real real;
    FixtureShared() : _memo(0), _n(0), _p(&_n) {}
    // E1: mutable member written in a const method
    real Memo(real x) const { _memo = x; return _memo; }
    // E1 (pointee): write through a pointer member in a const method
    void Poke() const { *_p = 1; }
    // E3: cast drops const
    void Cast() const { const_cast<FixtureShared*>(this)->_n = 2; }
    // E4: non-const static, and a function-local static frozen from a parameter
    static int Counter() { static int calls = 0; return ++calls; }
    static real Frozen(real a) { static const real first = a * 2; return first; }
    // X1: foreign exception type and a swallowing handler
    static void ThrowsOther(int k) { if (k < 0) throw std::runtime_error("no"); }
    static int Swallow(const std::string& s) {
      try { return std::stoi(s); }
      catch (const std::exception&) { return 0; }
    }
    // X3: output written, then a throw
    static void WriteThenThrow(real x, real& out) {
      out = x;
      if (x > 1) throw GeographicErr("too big");
    }
    // X4: guard that is true for NaN in an ordinary function
    static real NanThrows(real lat) {
      if (!(std::fabs(lat) <= 90)) throw GeographicErr("bad latitude");
      return lat;
    }
    // X4 (helper): the same, the comparison hidden in a small predicate
    static bool InRange(real x, real lo, real hi) { return x >= lo && x <= hi; }
    static real NanThrowsViaHelper(real lon) {
      if (!InRange(lon, -180, 180)) throw GeographicErr("bad longitude");
      return lon;
    }
    // NAN2: an ordered comparison sends a NaN latitude into the arm that stores constants (the pole), where the
    // other arm computes from it; written with != the NaN would take the computing arm
    static void NanToPole(real lat, real& xi, real& eta) {
      if (lat < 90) {
        xi = std::atan(lat);
        eta = std::sinh(lat);
      } else {
        xi = Math::pi()/2;
        eta = 0;
      }
    }
    // W1: an output written on one returning path only
    static void HalfWritten(int code, int& zone, bool& northp) {
      if (code > 0) { zone = code; northp = true; }
      else if (code < 0) { zone = -code; }
      else { zone = 0; northp = false; }
    }
    // X6: loop without a cap
    static real Spin(real x) {
      while (x > 1) x = std::sqrt(x) + 1;
      return x;
    }
    // X2b: strchr membership without excluding NUL
    static int Lookup(const char* s, char c) {
      const char* p = std::strchr(s, c);
      return p ? int(p - s) : -1;
    }
    // X7: closed guard lets the index reach the terminating NUL of the alphabet
    static char Pick(int i) {
      if (i < 0 || i > 4) throw GeographicErr("bad index");
      return alpha_[i];
    }
    // IDX1: every ':' takes the next slot of piece[3]; nothing compares the slot count with a constant
    static real Pieces(const std::string& s) {
      real piece[] = {0, 0, 0};
      unsigned npiece = 0;
      real cur = 0;
      int k;
      for (unsigned p = 0; p < s.size(); ++p) {
        char x = s[p];
        if (x >= '0' && x <= '9')
          cur = 10 * cur + (x - '0');
        else if (x == ':') {
          k = npiece;
          piece[k] = cur;
          npiece = k + 1;
          cur = 0;
        }
      }
      return piece[0] + piece[1] / 60 + piece[2] / 3600;
    }
    // X9: the second half of the buffer is filled from the wrong offset when prec > 3
    static void HalfFilled(real x, int prec, std::string& out) {
      if (!(prec >= 0 && prec <= 5)) throw GeographicErr("bad precision");
      char buf[10];
      const int n = prec < 3 ? prec : 3;
      int ix = int(x), iy = int(2 * x);
      for (int c = n; c--;) { buf[c] = alpha_[ix % 4]; buf[c + n] = alpha_[iy % 4]; ix /= 4; iy /= 4; }
      for (int c = n; c < prec; ++c) { buf[c] = 'A'; buf[c + prec] = 'B'; }
      out.resize(2 * prec);
      std::copy(buf, buf + 2 * prec, out.begin());
    }
    // X10: the guard admits the terminating value, the decoded latitude reaches +90
    static void Decode(const std::string& code, real& lat, real& lon) {
      if (code.length() != 2) throw GeographicErr("bad length");
      int k = Utility::lookup(alpha_, code[0]), j = Utility::lookup(alpha_, code[1]);
      if (k < 0 || j < 0) throw GeographicErr("bad letter");
      lat = k * real(60) - 90;        // k in [0, 3]: 90 is attained
      lon = j * real(90) - 180;
    }
    // X12: a string of length 3 is accepted although nothing looks at its third character
    static void DecodeLoose(const std::string& code, real& lat, real& lon) {
      if (code.length() < 2 || code.length() > 3) throw GeographicErr("bad length");
      int k = Utility::lookup(alpha_, code[0]), j = Utility::lookup(alpha_, code[1]);
      if (k < 0 || j < 0) throw GeographicErr("bad letter");
      lat = k * real(45) - 90;
      lon = j * real(90) - 180;
    }
    static const char* const alpha_;
  private:
    mutable real _memo;
    int _n;
    int* _p;
  };

  const char* const FixtureShared::alpha_ = "ABCD";

  // S2: the convergence loses its hemisphere sign; D1: SetScale rescales _k0 but not the derived _nrho0;
  // H2: y mixes a term scaled by _nrho0 with an unscaled one
  class FixtureConic {
  public:
    typedef Math::real real;
    FixtureConic(real k0, bool south) : _sign(south ? -1 : 1), _k0(k0), _nrho0(3 * _k0) {}
    void Forward(real lon0, real lat, real lon, real& x, real& y, real& gamma, real& k) const {
      real sphi, cphi;
      Math::sincosd(Math::LatFix(lat) * _sign, sphi, cphi);
      real theta = (lon - lon0) * sphi;
      x = _nrho0 * std::sin(theta);
      y = _nrho0 * (1 - std::cos(theta)) - cphi;
      y *= _sign;
      gamma = theta;                 // should be _sign * theta
      k = _k0;
    }
    void SetScale(real k) { _k0 *= k; }
  private:
    real _sign, _k0, _nrho0;
  };

  // DZ1: Jn divides by _e2, which is zero for the sphere the constructor accepts; Q tests first
  class FixtureSphere {
  public:
    typedef Math::real real;
    FixtureSphere(real f, real J2) : _f(f), _e2(f * (2 - f)), _jJ2(J2) {}
    real Jn(int n) const { return -3 * (1 - n + 5 * n * _jJ2 / _e2) / ((2 * n + 1) * (2 * n + 3)); }
    real Q() const { return _e2 == 0 ? 1 : _jJ2 / _e2; }
  private:
    real _f, _e2, _jJ2;
  };

  // I1: a scratch value needed for the potential is overwritten while computing the gradient
  // DSP: the SCHMIDT arm instantiates the FULL engine
  class FixtureHarm {
  public:
    typedef Math::real real;
    enum normalization { FULL = 0, SCHMIDT = 1 };
    template<bool gradp, normalization norm, int L>
    static real Engine(const real c[], real x, real& gx) { gx = gradp ? c[0] * norm : 0; return c[L - 1] * x; }
    FixtureHarm() : _norm(FULL) { _c[0] = 1; }
    real T(real x, real y, real& dx, bool gradp) const {
      real invR = 1 / std::hypot(x, y), t = x * y;
      if (gradp) {
        invR = invR * invR * invR;
        dx = x * invR;
      }
      return t * invR;
    }
    real Value(real x) const {
      real g;
      switch (_norm) {
      case FULL:
        return Engine<false, FULL, 1>(_c, x, g);
      case SCHMIDT:
      default:
        return Engine<false, FULL, 1>(_c, x, g);
      }
    }
  private:
    unsigned _norm;
    real _c[1];
  };

  // SW1: arguments swapped with respect to the parameter names; OV1: 32-bit product widened too late
  class FixtureLint {
  public:
    static int Cell(int n, int m) { return n * 100 + m; }
    static int Use(int n, int m) { return Cell(m, n); }
    static int Inner(int v, bool extendp) { return extendp ? v : -v; }
    static int Wrap(int v, bool exact, bool extendp) { return Inner(v, exact) + (extendp ? 1 : 0); }
    // N1: the sine/cosine are taken before the far-side reflection of lon
    static double Fold(double lon) {
      int lonsign = std::signbit(lon) ? -1 : 1;
      lon *= lonsign;
      double slam, clam;
      Math::sincosd(lon, slam, clam);
      if (lon > 90) lon = 180 - lon;
      return slam * lonsign + clam + lon;
    }
    // D3: the angle is corrected but its sine is not recomputed
    static double Newton(double sig, double target) {
      double ssig = std::sin(sig), csig = std::cos(sig);
      sig = sig - (ssig - target) / csig;
      return ssig + sig;
    }
    static bool LengthOk(int width, int height, unsigned long long filelen)
    { return 4u * unsigned(width) * unsigned(height) == filelen; }
    // NB1: the upper-cased copy is made, then the raw string is compared
    static bool IsNan(const std::string& s) {
      std::string t(s);
      for (size_t i = s.length(); i--;)
        t[i] = char(std::toupper(s[i]));
      return t == "NAN" || s == "NA";
    }
    // RW1: the bare byte is rewritten before the UTF-8 sequence that ends in it; '' is paired before ` becomes '
    static void Sub(std::string& s, const std::string& pat, char c) {
      for (std::string::size_type p = 0; (p = s.find(pat, p)) != std::string::npos; ++p) s.replace(p, pat.size(), 1, c);
    }
    static std::string Canon(const std::string& in) {
      std::string t = in;
      Sub(t, "\xb0", 'd');
      Sub(t, "\xc2\xb0", 'd');
      Sub(t, "''", '"');
      Sub(t, "`", '\'');
      return t;
    }
    // ZQ1: the equality guard is taken before the operands are replaced by their reciprocals
    static double Dratio(double tx, double ty, double g) {
      if (tx == ty) return g;
      tx = 1 / tx; ty = 1 / ty;
      return std::atan2(g * (ty - tx), 1 + tx * ty) / std::atan2(ty - tx, 1 + tx * ty);
    }
    // PRT1: To() keeps the three kinds apart, From() lets kind 1 fall into the arm of kind 2
    static double To(int kind, double v) {
      switch (kind) { case 0: return v; case 1: return v * 2; case 2: return v * 3; default: return 0; }
    }
    static double From(int kind, double v) {
      switch (kind) { case 0: return v; case 1: case 2: return v / 3; default: return 0; }
    }
    // TW1: the far-side test is written with fabs once and bare once
    static double Far(double dlon, double s) {
      double a = std::fabs(dlon) <= 90 ? s : -s;
      double b = dlon <= 90 ? std::fabs(s) : -std::fabs(s);
      return a + b;
    }
    // ANG1: the longitude in degrees is handed to sin, and a radian result to AngNormalize
    static double Units(double lon, double y, double x) {
      double s = std::sin(lon);
      double a = std::atan2(y, x);
      return s + Math::AngNormalize(a);
    }
    // ONE1: the longitude difference is bounded on the east side only
    static bool InZone(double lon0, double lon) {
      double dlon = Math::AngDiff(lon0, lon);
      return !(dlon > 60);
    }
    // AUX1: the conformal latitude is converted as if it were the geographic one
    static AuxAngle Rect(const AuxLatitude& aux, const AuxAngle& phi1, const AuxAngle& chi1) {
      AuxAngle mu1(aux.Convert(AuxLatitude::PHI, AuxLatitude::MU, phi1));
      AuxAngle mu2(aux.Convert(AuxLatitude::PHI, AuxLatitude::MU, chi1));
      return AuxAngle(mu1.y() + mu2.y(), mu1.x());
    }
    // CP2: AltSum is a copy of Sum with _a -> _alt_a, one name left behind
    double Sum(double w) const { return _a * w + _a / (1 + w) + _a - _b; }
    double AltSum(double w) const { return _alt_a * w + _a / (1 + w) + _alt_a - _alt_b; }
    double _a = 1, _b = 2, _alt_a = 3, _alt_b = 4;
    // SWP1: the sines are ordered, the cosines stay behind
    static double Order(double sphi1, double cphi1, double sphi2, double cphi2) {
      if (sphi1 > sphi2) { std::swap(sphi1, sphi2); }
      return sphi1 * cphi2 - cphi1 * sphi2;
    }
    // SC1: the cosine variable receives the sine
    static double Radius(double azi, double m, double n) {
      double salp, calp;
      Math::sincosd(azi, calp, salp);
      return 1 / (calp * calp / m + salp * salp / n);
    }
    // DS1: the diagonal term is added to wt after the sum that consumes wt
    static double Accum(const double* c, int n, double u) {
      double v = 0;
      for (int m = n; m >= 0; --m) {
        double wt = 0;
        for (int k = n; k > m; --k)
          wt = u * wt + c[k];
        v = u * v + wt;
        wt += m * c[m];
      }
      return v;
    }
    // DEAD1: the first condition already covers the two that follow
    static int Hemi(int ia, int ib) {
      if (ia == 0 || ib == 0)
        return 3;
      else if (ia == 0)
        return 2 - ib;
      else if (ib == 0)
        return 2 - ia;
      return ia + ib;
    }
    // POS1: the end position is passed where a length is expected
    static std::string Trim(const std::string& s) {
      unsigned beg = 0, end = unsigned(s.size());
      while (beg < end && s[beg] == ' ') ++beg;
      while (beg < end && s[end - 1] == ' ') --end;
      return std::string(s, beg, end);
    }
    // CP1: the northing clause is a copy of the easting clause with one name left behind
    static double Pad(double easting, double northing, double scale) {
      double w = 0;
      if (easting > 0) { w += easting / scale; if (std::fabs(easting / scale) > 0.5) w += 1; }
      if (northing > 0) { w += northing / scale; if (std::fabs(easting / scale) > 0.5) w += 1; }
      return w;
    }
  };

  // K7: the eastward wrap test is off by one (ix == _width is not wrapped) before the file position is taken
  class FixtureRaster {
  public:
    FixtureRaster() : _width(2), _height(3), _pos(0) {}
    int probe(int ix, int iy) const {
      if (ix < -1 || ix > _width + 1 || iy < 0 || iy >= _height) return 0;
      if (ix < 0) ix += _width;
      else if (ix > _width) ix -= _width;
      filepos(ix, iy);
      return _pos;
    }
  private:
    void filepos(int ix, int iy) const { _pos = iy * _width + ix; }
    int _width, _height;
    mutable int _pos;
  };

}
