// Positive controls: one violating construct per rule whose expected count on the real tree is
// zero.  This unit is pushed through the same extractor and rule code on every run; a rule that
// does not report its control is broken (exit 2).  It is never linked into anything.
#include <GeographicLib/Constants.hpp>
#include <GeographicLib/Math.hpp>
#include <GeographicLib/Utility.hpp>
#include <algorithm>
#include <cmath>
#include <cstring>
#include <stdexcept>
#include <string>
#include <vector>

namespace GeographicLib {

  class FixtureShared {
  public:
    typedef Math::real real;
    FixtureShared() : _memo(0), _n(0), _p(&_n) {}
    // E1: mutable member written in a const method
    real Memo(real x) const { _memo = x; return _memo; }
    // E1 (pointee): write through a pointer member in a const method
    void Poke() const { *_p = 1; }
    // E3: cast drops const
    void Cast() const { const_cast<FixtureShared*>(this)->_n = 2; }
    // E4: non-const static, and a function-local static frozen from a parameter
    static int Counter() { static int calls = 0; return ++calls; }
    static real Frozen(real a) { static const real first = a * 2; return first; }
    // X1: foreign exception type and a swallowing handler
    static void ThrowsOther(int k) { if (k < 0) throw std::runtime_error("no"); }
    static int Swallow(const std::string& s) {
      try { return std::stoi(s); }
      catch (const std::exception&) { return 0; }
    }
    // X3: output written, then a throw
    static void WriteThenThrow(real x, real& out) {
      out = x;
      if (x > 1) throw GeographicErr("too big");
    }
    // X4: guard that is true for NaN in an ordinary function
    static real NanThrows(real lat) {
      if (!(std::fabs(lat) <= 90)) throw GeographicErr("bad latitude");
      return lat;
    }
    // X4 (helper): the same, the comparison hidden in a small predicate
    static bool InRange(real x, real lo, real hi) { return x >= lo && x <= hi; }
    static real NanThrowsViaHelper(real lon) {
      if (!InRange(lon, -180, 180)) throw GeographicErr("bad longitude");
      return lon;
    }
    // W1: an output written on one returning path only
    static void HalfWritten(int code, int& zone, bool& northp) {
      if (code > 0) { zone = code; northp = true; }
      else if (code < 0) { zone = -code; }
      else { zone = 0; northp = false; }
    }
    // X6: loop without a cap
    static real Spin(real x) {
      while (x > 1) x = std::sqrt(x) + 1;
      return x;
    }
    // X2b: strchr membership without excluding NUL
    static int Lookup(const char* s, char c) {
      const char* p = std::strchr(s, c);
      return p ? int(p - s) : -1;
    }
    // X7: closed guard lets the index reach the terminating NUL of the alphabet
    static char Pick(int i) {
      if (i < 0 || i > 4) throw GeographicErr("bad index");
      return alpha_[i];
    }
    // X9: the second half of the buffer is filled from the wrong offset when prec > 3
    static void HalfFilled(real x, int prec, std::string& out) {
      if (!(prec >= 0 && prec <= 5)) throw GeographicErr("bad precision");
      char buf[10];
      const int n = prec < 3 ? prec : 3;
      int ix = int(x), iy = int(2 * x);
      for (int c = n; c--;) { buf[c] = alpha_[ix % 4]; buf[c + n] = alpha_[iy % 4]; ix /= 4; iy /= 4; }
      for (int c = n; c < prec; ++c) { buf[c] = 'A'; buf[c + prec] = 'B'; }
      out.resize(2 * prec);
      std::copy(buf, buf + 2 * prec, out.begin());
    }
    // X10: the guard admits the terminating value, the decoded latitude reaches +90
    static void Decode(const std::string& code, real& lat, real& lon) {
      if (code.length() != 2) throw GeographicErr("bad length");
      int k = Utility::lookup(alpha_, code[0]), j = Utility::lookup(alpha_, code[1]);
      if (k < 0 || j < 0) throw GeographicErr("bad letter");
      lat = k * real(60) - 90;        // k in [0, 3]: 90 is attained
      lon = j * real(90) - 180;
    }
    static const char* const alpha_;
  private:
    mutable real _memo;
    int _n;
    int* _p;
  };

  const char* const FixtureShared::alpha_ = "ABCD";

}
