// Explicit instantiation of the header-only NearestNeighbor so that the rules (X1, X3, X6 ...)
// see concrete function bodies.  Analysed as one more unit of the program; never linked.
#include <GeographicLib/NearestNeighbor.hpp>
#include <vector>

namespace glverif {
  struct Pt { double x, y; };
  struct Dist {
    double operator()(const Pt& a, const Pt& b) const;
  };
}

template class GeographicLib::NearestNeighbor<double, glverif::Pt, glverif::Dist>;
