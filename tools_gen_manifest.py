#!/usr/bin/env python3
"""Regenerates MANIFEST.json from glv/manifest_data.py (keeps it valid and in one place)."""
import json, os, sys
sys.path.insert(0, os.path.dirname(os.path.abspath(__file__)))
from glv import manifest_data as M
json.dump(M.manifest(), open(os.path.join(os.path.dirname(os.path.abspath(__file__)), 'MANIFEST.json'), 'w'), indent=1)
print('MANIFEST.json written:', len(M.manifest()['checks']), 'checks,', len(M.manifest()['not_applicable']), 'not applicable')
